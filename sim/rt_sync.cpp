// gsim runtime: simulated pthread mutex / rwlock / condvar / once, static-init
// guards, libstdc++ futex helpers, clocks, sleeps, sched_yield.
// Every function forwards to the real implementation outside a simulated run
// or when called from a thread the simulator does not own.
#include "rt_internal.h"
#include "rt_sync.h"

#include <dlfcn.h>
#include <errno.h>
#include <sched.h>
#include <string.h>
#include <time.h>
#include <unistd.h>

namespace gsim_rt {

enum SKind { SK_NONE = 0, SK_MUTEX, SK_RWLOCK, SK_COND, SK_ONCE, SK_GUARD, SK_FUTEX };
struct SyncObj {
    const void* key;
    int kind;
    int owner;  // mutex owner / rwlock writer / once-guard runner; -1 none
    uint8_t rd[MAXT];  // rwlock: read holds per thread
    int state;  // once/guard: 0 idle 1 running 2 done
    VC clock;  // release clock (mutex, write side of rwlock, once/guard)
    VC rclock;  // rwlock: joined clocks of read unlocks
};
constexpr int SOH = 1 << 12;
static SyncObj g_so[SOH];
static int g_so_used[SOH];
static int g_so_nused = 0;

void sync_run_reset()
{
    for (int i = 0; i < g_so_nused; i++) memset(&g_so[g_so_used[i]], 0, sizeof(SyncObj));
    g_so_nused = 0;
}

static SyncObj* so_get(const void* p, int kind)
{
    uint32_t h = (uint32_t)(((uintptr_t)p * 0x9E3779B97F4A7C15ull) >> 40) & (SOH - 1);
    for (int n = 0; n < SOH; n++) {
        SyncObj* o = &g_so[h];
        if (o->key == p) {
            if (o->kind != kind) {
                // address reused for another kind of object: start afresh
                memset(o, 0, sizeof *o);
                o->key = p;
                o->kind = kind;
                o->owner = -1;
            }
            return o;
        }
        if (!o->key) {
            o->key = p;
            o->kind = kind;
            o->owner = -1;
            g_so_used[g_so_nused++] = (int)h;
            return o;
        }
        h = (h + 1) & (SOH - 1);
    }
    failf("harness", "sync object table full");
}
static SyncObj* so_find(const void* p)
{
    uint32_t h = (uint32_t)(((uintptr_t)p * 0x9E3779B97F4A7C15ull) >> 40) & (SOH - 1);
    for (int n = 0; n < SOH; n++) {
        SyncObj* o = &g_so[h];
        if (o->key == p) return o;
        if (!o->key) return nullptr;
        h = (h + 1) & (SOH - 1);
    }
    return nullptr;
}

static bool rw_writer_waiting(const void* obj)
{
    int n = thread_count();
    for (int i = 0; i < n; i++) {
        Thread* t = thread_by_id(i);
        if (t->st == T_BLOCKED && t->bk == B_RW_W && t->bobj == obj) return true;
    }
    return false;
}
static int rw_readers(SyncObj* o, int except = -1)
{
    int n = 0;
    for (int i = 0; i < MAXT; i++)
        if (i != except) n += o->rd[i];
    return n;
}
static bool rw_can_read(SyncObj* o, Thread* t)
{
    if (o->owner >= 0) return false;
    if (g_rw_pref == 1 && o->rd[t->id] == 0 && rw_writer_waiting(o->key)) return false;
    return true;
}

bool thread_enabled(Thread* t)
{
    switch (t->bk) {
        case B_MUTEX: {
            SyncObj* o = so_find(t->bobj);
            return !o || o->owner < 0;
        }
        case B_RW_R: {
            SyncObj* o = so_find(t->bobj);
            return !o || rw_can_read(o, t);
        }
        case B_RW_W: {
            SyncObj* o = so_find(t->bobj);
            return !o || (o->owner < 0 && rw_readers(o) == 0);
        }
        case B_COND: return t->signaled;
        case B_ONCE:
        case B_GUARD: {
            SyncObj* o = so_find(t->bobj);
            return !o || o->state != 1;
        }
        case B_FUTEX:
            return t->signaled ||
                __atomic_load_n((const unsigned*)t->bobj, __ATOMIC_RELAXED) !=
                (unsigned)t->bval;
        case B_SLEEP: return false;
        default: return harness_enabled(t);
    }
}

static void block(Thread* t, int bk, const void* obj, int64_t deadline, bool untimed_wait)
{
    if (untimed_wait && t->forbid_obj && t->forbid_obj == obj)
        failf(t->forbid_cls ? t->forbid_cls : "blocked", "thread %d waits without a time limit on "
              "the wrapper's own lock (object #%d) inside a try / timed acquisition", t->id,
              obj_ordinal(obj));
    if (untimed_wait && t->forbid_block)
        failf(t->forbid_cls ? t->forbid_cls : "blocked", "thread %d blocks on object #%d (%s) "
              "in a call that must not wait", t->id, obj_ordinal(obj),
              bk == B_MUTEX ? "mutex" : bk == B_COND ? "condvar" : "rwlock");
    if (deadline >= 0) {
        int64_t rem = deadline - g_clock_ns;
        if (rem > t->tb_max_ns) t->tb_max_ns = rem;
        if (deadline > t->tb_latest_deadline) t->tb_latest_deadline = deadline;
    }
    t->st = T_BLOCKED;
    t->bk = bk;
    t->bobj = obj;
    t->deadline = deadline;
    block_here();
}

static inline int64_t ts_ns(const struct timespec* ts)
{
    return (int64_t)ts->tv_sec * 1000000000ll + ts->tv_nsec;
}

// ------------------------------------------------------------------ mutex
static void mutex_acquire(Thread* t, SyncObj* o)
{
    o->owner = t->id;
    vc_join(t->vc, o->clock);
    t->held_excl++;
    t->last_lock = o->key;
}
static void mutex_release(Thread* t, SyncObj* o)
{
    o->owner = -1;
    o->clock = t->vc;
    t->vc.c[t->id]++;
    t->held_excl--;
}

// std::recursive_mutex / recursive_timed_mutex: glibc keeps the type in the object itself
// (static initialiser or pthread_mutex_init, neither of which the runtime replaces); the
// nesting depth lives in SyncObj::state, the thread counts the mutex as held once
static bool mutex_is_recursive(const pthread_mutex_t* m)
{
    return (m->__data.__kind & 3) == PTHREAD_MUTEX_RECURSIVE_NP;
}
static int sim_mutex_lock(pthread_mutex_t* m, int ek, int64_t deadline)
{
    Thread* t = tl_self;
    RtScope rs(t);
    sched_point(ek, m);
    SyncObj* o = so_get(m, SK_MUTEX);
    if (o->owner == t->id && mutex_is_recursive(m)) {
        o->state++;
        event_result(0);
        return 0;
    }
    // try_lock_for / try_lock_until are allowed to fail spuriously (like try_lock): with the
    // spurious_trylock fault on, a timed acquisition of a free mutex may give up at once
    if (deadline >= 0 && o->owner < 0 && fault_enabled(D_SPURIOUS_TRYLOCK) &&
        fault_decide(D_SPURIOUS_TRYLOCK)) {
        event_result(ETIMEDOUT + 1000);
        return ETIMEDOUT;
    }
    for (;;) {
        if (o->owner < 0) {
            mutex_acquire(t, o);
            event_result(0);
            return 0;
        }
        if (o->owner == t->id)
            failf("self_deadlock", "thread %d locks mutex #%d which it already owns", t->id,
                  obj_ordinal(m));
        if (deadline >= 0 && g_clock_ns >= deadline) {
            event_result(ETIMEDOUT);
            return ETIMEDOUT;
        }
        block(t, B_MUTEX, m, deadline, deadline < 0);
        if (t->timed_out) {
            event_result(ETIMEDOUT);
            return ETIMEDOUT;
        }
    }
}
static int sim_mutex_trylock(pthread_mutex_t* m)
{
    Thread* t = tl_self;
    RtScope rs(t);
    sched_point(E_MTRY, m);
    SyncObj* o = so_get(m, SK_MUTEX);
    if (o->owner == t->id && mutex_is_recursive(m)) {
        o->state++;
        event_result(0);
        return 0;
    }
    if (o->owner >= 0) {
        event_result(EBUSY);
        return EBUSY;
    }
    if (fault_enabled(D_SPURIOUS_TRYLOCK) && fault_decide(D_SPURIOUS_TRYLOCK)) {
        event_result(EBUSY + 1000);
        return EBUSY;
    }
    mutex_acquire(t, o);
    event_result(0);
    return 0;
}
static int sim_mutex_unlock(pthread_mutex_t* m)
{
    Thread* t = tl_self;
    RtScope rs(t);
    sched_point(E_MUNLOCK, m);
    SyncObj* o = so_get(m, SK_MUTEX);
    if (o->owner != t->id)
        failf("bad_unlock", "thread %d unlocks mutex #%d which is %s", t->id, obj_ordinal(m),
              o->owner < 0 ? "not locked (released twice?)" : "owned by another thread");
    if (o->state > 0 && mutex_is_recursive(m)) {
        o->state--;
        return 0;
    }
    mutex_release(t, o);
    return 0;
}

// ----------------------------------------------------------------- rwlock
static int sim_rw_rdlock(pthread_rwlock_t* l, int ek, int64_t deadline, bool tryonly)
{
    Thread* t = tl_self;
    RtScope rs(t);
    sched_point(ek, l);
    SyncObj* o = so_get(l, SK_RWLOCK);
    for (;;) {
        if (rw_can_read(o, t)) {
            if (tryonly && fault_enabled(D_SPURIOUS_TRYLOCK) &&
                fault_decide(D_SPURIOUS_TRYLOCK)) {
                event_result(EBUSY + 1000);
                return EBUSY;
            }
            o->rd[t->id]++;
            vc_join(t->vc, o->clock);
            t->held_shared++;
            t->last_lock = o->key;
            event_result(0);
            return 0;
        }
        if (tryonly) {
            event_result(EBUSY);
            return EBUSY;
        }
        if (o->owner == t->id)
            failf("self_deadlock", "thread %d read-locks rwlock #%d which it holds for writing",
                  t->id, obj_ordinal(l));
        if (deadline >= 0 && g_clock_ns >= deadline) {
            event_result(ETIMEDOUT);
            return ETIMEDOUT;
        }
        block(t, B_RW_R, l, deadline, deadline < 0);
        if (t->timed_out) {
            event_result(ETIMEDOUT);
            return ETIMEDOUT;
        }
    }
}
static int sim_rw_wrlock(pthread_rwlock_t* l, int ek, int64_t deadline, bool tryonly)
{
    Thread* t = tl_self;
    RtScope rs(t);
    sched_point(ek, l);
    SyncObj* o = so_get(l, SK_RWLOCK);
    for (;;) {
        if (o->owner < 0 && rw_readers(o) == 0) {
            if (tryonly && fault_enabled(D_SPURIOUS_TRYLOCK) &&
                fault_decide(D_SPURIOUS_TRYLOCK)) {
                event_result(EBUSY + 1000);
                return EBUSY;
            }
            o->owner = t->id;
            vc_join(t->vc, o->clock);
            vc_join(t->vc, o->rclock);
            t->held_excl++;
            t->last_lock = o->key;
            event_result(0);
            return 0;
        }
        if (tryonly) {
            event_result(EBUSY);
            return EBUSY;
        }
        if (o->owner == t->id || (o->rd[t->id] && rw_readers(o, t->id) == 0 && o->owner < 0))
            failf("self_deadlock", "thread %d write-locks rwlock #%d which it already holds",
                  t->id, obj_ordinal(l));
        if (deadline >= 0 && g_clock_ns >= deadline) {
            event_result(ETIMEDOUT);
            return ETIMEDOUT;
        }
        block(t, B_RW_W, l, deadline, deadline < 0);
        if (t->timed_out) {
            event_result(ETIMEDOUT);
            return ETIMEDOUT;
        }
    }
}
static int sim_rw_unlock(pthread_rwlock_t* l)
{
    Thread* t = tl_self;
    RtScope rs(t);
    sched_point(E_RWUNLOCK, l);
    SyncObj* o = so_get(l, SK_RWLOCK);
    if (o->owner == t->id) {
        o->owner = -1;
        o->clock = t->vc;
        t->vc.c[t->id]++;
        t->held_excl--;
    } else if (o->rd[t->id] > 0) {
        o->rd[t->id]--;
        vc_join(o->rclock, t->vc);
        t->vc.c[t->id]++;
        t->held_shared--;
    } else {
        failf("bad_unlock", "thread %d unlocks rwlock #%d which it does not hold (released "
              "twice?)", t->id, obj_ordinal(l));
    }
    return 0;
}

// ---------------------------------------------------------------- condvar
static int sim_cond_wait(pthread_cond_t* c, pthread_mutex_t* m, int64_t deadline)
{
    Thread* t = tl_self;
    RtScope rs(t);
    sched_point(deadline >= 0 ? E_CTIMED : E_CWAIT, c);
    SyncObj* mo = so_get(m, SK_MUTEX);
    if (mo->owner != t->id)
        failf("bad_unlock", "thread %d waits on condvar #%d without owning mutex #%d", t->id,
              obj_ordinal(c), obj_ordinal(m));
    bool spurious = false;
    if (fault_enabled(D_SPURIOUS_WAKE)) spurious = fault_decide(D_SPURIOUS_WAKE);
    mutex_release(t, mo);
    t->signaled = spurious;
    bool timed_out = false;
    if (deadline >= 0 && g_clock_ns >= deadline && !spurious) {
        timed_out = true;
    } else {
        block(t, B_COND, c, deadline, deadline < 0);
        timed_out = t->timed_out && !t->signaled;
    }
    t->signaled = false;
    // re-acquire the mutex
    while (mo->owner >= 0) {
        block(t, B_MUTEX, m, -1, false);
    }
    mutex_acquire(t, mo);
    t->cond_reacquire_step = g_step;
    event_result(timed_out ? ETIMEDOUT : (spurious ? 1000 : 0));
    return timed_out ? ETIMEDOUT : 0;
}
static int sim_cond_wake(pthread_cond_t* c, bool all)
{
    Thread* t = tl_self;
    RtScope rs(t);
    sched_point(all ? E_CBCAST : E_CSIGNAL, c);
    int w[MAXT], nw = 0;
    int n = thread_count();
    for (int i = 0; i < n; i++) {
        Thread* o = thread_by_id(i);
        if (o->st == T_BLOCKED && o->bk == B_COND && o->bobj == c && !o->signaled) w[nw++] = i;
    }
    if (nw == 0) {
        event_result(0);
        return 0;
    }
    if (all) {
        for (int i = 0; i < nw; i++) thread_by_id(w[i])->signaled = true;
    } else {
        int idx = decide_uniform(D_SIGNAL, nw, 0, 500);
        thread_by_id(w[idx])->signaled = true;
    }
    event_result((uint64_t)nw);
    return 0;
}

}  // namespace gsim_rt

using namespace gsim_rt;

// ======================================================= real forwards
#define REAL(ret, name, ...)                                                   \
    static ret (*real_##name)(__VA_ARGS__) = nullptr;                          \
    static inline void resolve_##name()                                        \
    {                                                                          \
        if (!real_##name) real_##name = (ret(*)(__VA_ARGS__))dlsym(RTLD_NEXT, #name); \
    }

REAL(int, pthread_mutex_lock, pthread_mutex_t*)
REAL(int, pthread_mutex_trylock, pthread_mutex_t*)
REAL(int, pthread_mutex_timedlock, pthread_mutex_t*, const struct timespec*)
REAL(int, pthread_mutex_clocklock, pthread_mutex_t*, clockid_t, const struct timespec*)
REAL(int, pthread_mutex_unlock, pthread_mutex_t*)
REAL(int, pthread_rwlock_rdlock, pthread_rwlock_t*)
REAL(int, pthread_rwlock_wrlock, pthread_rwlock_t*)
REAL(int, pthread_rwlock_tryrdlock, pthread_rwlock_t*)
REAL(int, pthread_rwlock_trywrlock, pthread_rwlock_t*)
REAL(int, pthread_rwlock_timedrdlock, pthread_rwlock_t*, const struct timespec*)
REAL(int, pthread_rwlock_timedwrlock, pthread_rwlock_t*, const struct timespec*)
REAL(int, pthread_rwlock_clockrdlock, pthread_rwlock_t*, clockid_t, const struct timespec*)
REAL(int, pthread_rwlock_clockwrlock, pthread_rwlock_t*, clockid_t, const struct timespec*)
REAL(int, pthread_rwlock_unlock, pthread_rwlock_t*)
REAL(int, pthread_cond_wait, pthread_cond_t*, pthread_mutex_t*)
REAL(int, pthread_cond_timedwait, pthread_cond_t*, pthread_mutex_t*, const struct timespec*)
REAL(int, pthread_cond_clockwait, pthread_cond_t*, pthread_mutex_t*, clockid_t,
     const struct timespec*)
REAL(int, pthread_cond_signal, pthread_cond_t*)
REAL(int, pthread_cond_broadcast, pthread_cond_t*)
REAL(int, pthread_once, pthread_once_t*, void (*)(void))
REAL(int, clock_gettime, clockid_t, struct timespec*)
REAL(int, nanosleep, const struct timespec*, struct timespec*)
REAL(int, clock_nanosleep, clockid_t, int, const struct timespec*, struct timespec*)
REAL(int, sched_yield, void)
REAL(int, __cxa_guard_acquire, uint64_t*)
REAL(void, __cxa_guard_release, uint64_t*)
REAL(void, __cxa_guard_abort, uint64_t*)

extern "C" {

int pthread_mutex_lock(pthread_mutex_t* m)
{
    if (sim_thread_active()) return sim_mutex_lock(m, E_MLOCK, -1);
    resolve_pthread_mutex_lock();
    return real_pthread_mutex_lock(m);
}
int pthread_mutex_trylock(pthread_mutex_t* m)
{
    if (sim_thread_active()) return sim_mutex_trylock(m);
    resolve_pthread_mutex_trylock();
    return real_pthread_mutex_trylock(m);
}
int pthread_mutex_timedlock(pthread_mutex_t* m, const struct timespec* ts)
{
    if (sim_thread_active()) return sim_mutex_lock(m, E_MTIMED, ts_ns(ts));
    resolve_pthread_mutex_timedlock();
    return real_pthread_mutex_timedlock(m, ts);
}
int pthread_mutex_clocklock(pthread_mutex_t* m, clockid_t clk, const struct timespec* ts)
{
    if (sim_thread_active()) return sim_mutex_lock(m, E_MTIMED, ts_ns(ts));
    resolve_pthread_mutex_clocklock();
    return real_pthread_mutex_clocklock(m, clk, ts);
}
int pthread_mutex_unlock(pthread_mutex_t* m)
{
    if (sim_thread_active()) return sim_mutex_unlock(m);
    resolve_pthread_mutex_unlock();
    return real_pthread_mutex_unlock(m);
}

int pthread_rwlock_rdlock(pthread_rwlock_t* l)
{
    if (sim_thread_active()) return sim_rw_rdlock(l, E_RDLOCK, -1, false);
    resolve_pthread_rwlock_rdlock();
    return real_pthread_rwlock_rdlock(l);
}
int pthread_rwlock_wrlock(pthread_rwlock_t* l)
{
    if (sim_thread_active()) return sim_rw_wrlock(l, E_WRLOCK, -1, false);
    resolve_pthread_rwlock_wrlock();
    return real_pthread_rwlock_wrlock(l);
}
int pthread_rwlock_tryrdlock(pthread_rwlock_t* l)
{
    if (sim_thread_active()) return sim_rw_rdlock(l, E_TRYRD, -1, true);
    resolve_pthread_rwlock_tryrdlock();
    return real_pthread_rwlock_tryrdlock(l);
}
int pthread_rwlock_trywrlock(pthread_rwlock_t* l)
{
    if (sim_thread_active()) return sim_rw_wrlock(l, E_TRYWR, -1, true);
    resolve_pthread_rwlock_trywrlock();
    return real_pthread_rwlock_trywrlock(l);
}
int pthread_rwlock_timedrdlock(pthread_rwlock_t* l, const struct timespec* ts)
{
    if (sim_thread_active()) return sim_rw_rdlock(l, E_TIMEDRD, ts_ns(ts), false);
    resolve_pthread_rwlock_timedrdlock();
    return real_pthread_rwlock_timedrdlock(l, ts);
}
int pthread_rwlock_timedwrlock(pthread_rwlock_t* l, const struct timespec* ts)
{
    if (sim_thread_active()) return sim_rw_wrlock(l, E_TIMEDWR, ts_ns(ts), false);
    resolve_pthread_rwlock_timedwrlock();
    return real_pthread_rwlock_timedwrlock(l, ts);
}
int pthread_rwlock_clockrdlock(pthread_rwlock_t* l, clockid_t clk, const struct timespec* ts)
{
    if (sim_thread_active()) return sim_rw_rdlock(l, E_TIMEDRD, ts_ns(ts), false);
    resolve_pthread_rwlock_clockrdlock();
    return real_pthread_rwlock_clockrdlock(l, clk, ts);
}
int pthread_rwlock_clockwrlock(pthread_rwlock_t* l, clockid_t clk, const struct timespec* ts)
{
    if (sim_thread_active()) return sim_rw_wrlock(l, E_TIMEDWR, ts_ns(ts), false);
    resolve_pthread_rwlock_clockwrlock();
    return real_pthread_rwlock_clockwrlock(l, clk, ts);
}
int pthread_rwlock_unlock(pthread_rwlock_t* l)
{
    if (sim_thread_active()) return sim_rw_unlock(l);
    resolve_pthread_rwlock_unlock();
    return real_pthread_rwlock_unlock(l);
}

int pthread_cond_wait(pthread_cond_t* c, pthread_mutex_t* m)
{
    if (sim_thread_active()) return sim_cond_wait(c, m, -1);
    resolve_pthread_cond_wait();
    return real_pthread_cond_wait(c, m);
}
int pthread_cond_timedwait(pthread_cond_t* c, pthread_mutex_t* m, const struct timespec* ts)
{
    if (sim_thread_active()) return sim_cond_wait(c, m, ts_ns(ts));
    resolve_pthread_cond_timedwait();
    return real_pthread_cond_timedwait(c, m, ts);
}
int pthread_cond_clockwait(pthread_cond_t* c, pthread_mutex_t* m, clockid_t clk,
                           const struct timespec* ts)
{
    if (sim_thread_active()) return sim_cond_wait(c, m, ts_ns(ts));
    resolve_pthread_cond_clockwait();
    return real_pthread_cond_clockwait(c, m, clk, ts);
}
int pthread_cond_signal(pthread_cond_t* c)
{
    if (sim_thread_active()) return sim_cond_wake(c, false);
    resolve_pthread_cond_signal();
    return real_pthread_cond_signal(c);
}
int pthread_cond_broadcast(pthread_cond_t* c)
{
    if (sim_thread_active()) return sim_cond_wake(c, true);
    resolve_pthread_cond_broadcast();
    return real_pthread_cond_broadcast(c);
}

int pthread_once(pthread_once_t* oc, void (*fn)(void))
{
    if (!sim_thread_active()) {
        resolve_pthread_once();
        return real_pthread_once(oc, fn);
    }
    Thread* t = tl_self;
    t->in_rt++;
    sched_point(E_ONCE, oc);
    SyncObj* o = so_get(oc, SK_ONCE);
    if (o->state == 0 && *(volatile int*)oc == 2) o->state = 2;  // done before the run
    for (;;) {
        if (o->state == 2) {
            vc_join(t->vc, o->clock);
            event_result(0);
            t->in_rt--;
            return 0;
        }
        if (o->state == 0) break;
        if (o->owner == t->id)
            failf("self_deadlock", "recursive call_once on #%d", obj_ordinal(oc));
        block(t, B_ONCE, oc, -1, false);
    }
    o->state = 1;
    o->owner = t->id;
    event_result(1);
    t->in_rt--;
    try {
        fn();
    }
    catch (...) {
        o->state = 0;
        o->owner = -1;
        throw;
    }
    t->in_rt++;
    o->state = 2;
    o->owner = -1;
    o->clock = t->vc;
    t->vc.c[t->id]++;
    if (!heap_in_arena((uintptr_t)oc)) *(volatile int*)oc = 2;
    t->in_rt--;
    return 0;
}

int __cxa_guard_acquire(uint64_t* g)
{
    if (!sim_thread_active()) {
        resolve___cxa_guard_acquire();
        return real___cxa_guard_acquire(g);
    }
    Thread* t = tl_self;
    RtScope rs(t);
    sched_point(E_GUARD_ACQ, g);
    SyncObj* o = so_get(g, SK_GUARD);
    for (;;) {
        if (*(volatile uint8_t*)g != 0 || o->state == 2) {
            vc_join(t->vc, o->clock);
            event_result(0);
            return 0;
        }
        if (o->state == 0) break;
        if (o->owner == t->id)
            failf("self_deadlock", "recursive static initialisation on #%d", obj_ordinal(g));
        block(t, B_GUARD, g, -1, false);
    }
    o->state = 1;
    o->owner = t->id;
    t->guard_depth++;
    event_result(1);
    return 1;
}
void __cxa_guard_release(uint64_t* g)
{
    if (!sim_thread_active()) {
        resolve___cxa_guard_release();
        real___cxa_guard_release(g);
        return;
    }
    Thread* t = tl_self;
    RtScope rs(t);
    sched_point(E_GUARD_REL, g);
    SyncObj* o = so_get(g, SK_GUARD);
    o->state = 2;
    o->owner = -1;
    o->clock = t->vc;
    atomic_model_store8_release(g, 1);
    t->vc.c[t->id]++;
    if (t->guard_depth > 0) t->guard_depth--;
}
void __cxa_guard_abort(uint64_t* g)
{
    if (!sim_thread_active()) {
        resolve___cxa_guard_abort();
        real___cxa_guard_abort(g);
        return;
    }
    Thread* t = tl_self;
    RtScope rs(t);
    SyncObj* o = so_get(g, SK_GUARD);
    o->state = 0;
    o->owner = -1;
    if (t->guard_depth > 0) t->guard_depth--;
}

int clock_gettime(clockid_t clk, struct timespec* ts)
{
    if (sim_thread_active()) {
        ts->tv_sec = g_clock_ns / 1000000000ll;
        ts->tv_nsec = g_clock_ns % 1000000000ll;
        return 0;
    }
    resolve_clock_gettime();
    return real_clock_gettime(clk, ts);
}

static int sim_sleep_until(int64_t deadline)
{
    Thread* t = tl_self;
    RtScope rs(t);
    sched_point(E_SLEEP, nullptr);
    while (g_clock_ns < deadline) {
        block(t, B_SLEEP, nullptr, deadline, false);
    }
    return 0;
}
int nanosleep(const struct timespec* req, struct timespec* rem)
{
    if (sim_thread_active()) {
        if (rem) rem->tv_sec = rem->tv_nsec = 0;
        return sim_sleep_until(g_clock_ns + ts_ns(req));
    }
    resolve_nanosleep();
    return real_nanosleep(req, rem);
}
int clock_nanosleep(clockid_t clk, int flags, const struct timespec* req, struct timespec* rem)
{
    if (sim_thread_active()) {
        if (rem) rem->tv_sec = rem->tv_nsec = 0;
        return sim_sleep_until((flags & TIMER_ABSTIME) ? ts_ns(req) : g_clock_ns + ts_ns(req));
    }
    resolve_clock_nanosleep();
    return real_clock_nanosleep(clk, flags, req, rem);
}
int sched_yield(void)
{
    if (sim_thread_active()) {
        tl_self->n_yield++;
        gsim::yield();
        return 0;
    }
    resolve_sched_yield();
    return real_sched_yield();
}

// ---- libstdc++ futex helpers used by std::future / std::promise.
// They are *static* member functions of std::__atomic_futex_unsigned_base;
// chrono::duration<long> is passed like a long.
bool gsim_futex_wait_until(unsigned* addr, unsigned val, bool has_timeout, long s,
                           long ns) asm("_ZNSt28__atomic_futex_unsigned_base19_M_futex_wait_"
                                        "untilEPjjbNSt6chrono8durationIlSt5ratioILl1ELl1EEEENS2_"
                                        "IlS3_ILl1ELl1000000000EEEE");
bool gsim_futex_wait_until_steady(unsigned* addr, unsigned val, bool has_timeout, long s,
                                  long ns) asm("_ZNSt28__atomic_futex_unsigned_base26_M_futex_"
                                               "wait_until_steadyEPjjbNSt6chrono8durationIlSt5ra"
                                               "tioILl1ELl1EEEENS2_IlS3_ILl1ELl1000000000EEEE");
void gsim_futex_notify_all(unsigned* addr) asm(
    "_ZNSt28__atomic_futex_unsigned_base19_M_futex_notify_allEPj");

typedef bool (*futex_wait_fn)(unsigned*, unsigned, bool, long, long);
typedef void (*futex_notify_fn)(unsigned*);

static bool sim_futex_wait(unsigned* addr, unsigned val, bool has_timeout, long s, long ns)
{
    Thread* t = tl_self;
    RtScope rs(t);
    sched_point(E_FUTEX_WAIT, addr);
    int64_t deadline = has_timeout ? (int64_t)s * 1000000000ll + ns : -1;
    for (;;) {
        if (__atomic_load_n(addr, __ATOMIC_RELAXED) != val) {
            event_result(1);
            return true;
        }
        if (has_timeout && g_clock_ns >= deadline) {
            event_result(0);
            return false;
        }
        t->signaled = false;
        t->bval = val;
        if (t->forbid_block && !has_timeout)
            failf(t->forbid_cls ? t->forbid_cls : "blocked",
                  "thread %d blocks on a future in a call that must not wait", t->id);
        block(t, B_FUTEX, addr, deadline, false);
        if (t->timed_out) {
            event_result(0);
            return false;
        }
        if (t->signaled) {
            t->signaled = false;
            event_result(1);
            return true;
        }
    }
}

bool gsim_futex_wait_until(unsigned* addr, unsigned val, bool has_timeout, long s, long ns)
{
    if (sim_thread_active()) return sim_futex_wait(addr, val, has_timeout, s, ns);
    static futex_wait_fn real = nullptr;
    if (!real)
        real = (futex_wait_fn)dlsym(
            RTLD_NEXT,
            "_ZNSt28__atomic_futex_unsigned_base19_M_futex_wait_untilEPjjbNSt6chrono8durationIl"
            "St5ratioILl1ELl1EEEENS2_IlS3_ILl1ELl1000000000EEEE");
    return real(addr, val, has_timeout, s, ns);
}
bool gsim_futex_wait_until_steady(unsigned* addr, unsigned val, bool has_timeout, long s,
                                  long ns)
{
    if (sim_thread_active()) return sim_futex_wait(addr, val, has_timeout, s, ns);
    static futex_wait_fn real = nullptr;
    if (!real)
        real = (futex_wait_fn)dlsym(
            RTLD_NEXT,
            "_ZNSt28__atomic_futex_unsigned_base26_M_futex_wait_until_steadyEPjjbNSt6chrono8dura"
            "tionIlSt5ratioILl1ELl1EEEENS2_IlS3_ILl1ELl1000000000EEEE");
    return real(addr, val, has_timeout, s, ns);
}
void gsim_futex_notify_all(unsigned* addr)
{
    if (sim_thread_active()) {
        Thread* t = tl_self;
        RtScope rs(t);
        sched_point(E_FUTEX_WAKE, addr);
        int n = thread_count();
        for (int i = 0; i < n; i++) {
            Thread* o = thread_by_id(i);
            if (o->st == T_BLOCKED && o->bk == B_FUTEX && o->bobj == addr) o->signaled = true;
        }
        return;
    }
    static futex_notify_fn real = nullptr;
    if (!real)
        real = (futex_notify_fn)dlsym(
            RTLD_NEXT, "_ZNSt28__atomic_futex_unsigned_base19_M_futex_notify_allEPj");
    real(addr);
}

}  // extern "C"
