// gsim runtime: the __tsan_* ABI.  Plain accesses feed a happens-before race
// detector and the use-after-free check; atomic operations are scheduling
// points executed under an operational C++11 memory model (DESIGN.md §2.5).
#include "rt_internal.h"
#include "rt_sync.h"

#include <string.h>
#include <sys/mman.h>

namespace gsim_rt {

bool g_check_races = false;
uint64_t g_stat_stale_reads = 0;
uint64_t g_stat_races_checked = 0;

// ------------------------------------------------------------ race shadow
struct Rec {
    uint32_t epoch;  // 0 = empty
    uint8_t tid;
    uint8_t lo, hi;  // byte range [lo,hi) within the granule
    uint8_t flags;  // 1 write, 2 atomic, 4 free
    uint64_t pc;
};
constexpr int NREC = 4;
struct Cell {
    Rec r[NREC];
    uint8_t next;
};

// arena shadow: direct mapped; other addresses: hash table
constexpr size_t ARENA_SIZE = 64u << 20;
static Cell* g_ashadow = nullptr;
static uintptr_t g_abase = 0;
static size_t g_ashadow_hw = 0;  // cells touched (high-water)

constexpr int XH = 1 << 15;
static uintptr_t g_xkey[XH];
static Cell g_xcell[XH];
static int g_xused[XH];
static int g_xnused = 0;

static void shadow_init()
{
    if (g_ashadow) return;
    g_ashadow = (Cell*)mmap(nullptr, (ARENA_SIZE / 8) * sizeof(Cell), PROT_READ | PROT_WRITE,
                            MAP_PRIVATE | MAP_ANONYMOUS | MAP_NORESERVE, -1, 0);
}

static Cell* cell_for(uintptr_t gran_addr)
{
    if (heap_in_arena(gran_addr)) {
        if (!g_abase) g_abase = heap_arena_base();
        size_t idx = (gran_addr - g_abase) >> 3;
        if (idx + 1 > g_ashadow_hw) g_ashadow_hw = idx + 1;
        return &g_ashadow[idx];
    }
    uint32_t h = (uint32_t)((gran_addr * 0x9E3779B97F4A7C15ull) >> 40) & (XH - 1);
    for (int n = 0; n < XH; n++) {
        if (g_xkey[h] == gran_addr) return &g_xcell[h];
        if (!g_xkey[h]) {
            if (g_xnused >= XH / 2) return nullptr;  // table full: stop tracking new cells
            g_xkey[h] = gran_addr;
            g_xused[g_xnused++] = (int)h;
            return &g_xcell[h];
        }
        h = (h + 1) & (XH - 1);
    }
    return nullptr;
}

static void report_race(Thread* t, uintptr_t a, size_t n, bool write, bool atomic, uintptr_t pc,
                        const Rec& r)
{
    char b1[64], b2[64];
    failf((r.flags & 4) ? "use_after_free" : "data_race",
          "%s%s of %zu bytes at %p (object #%d%+ld) by thread %d (pc %s) is not ordered after "
          "%s%s by thread %d (pc %s)",
          atomic ? "atomic " : "", write ? "write" : "read", n, (void*)a,
          obj_ordinal((const void*)(a & ~(uintptr_t)7)), (long)0, t->id,
          pc_describe(pc, b1, sizeof b1), (r.flags & 4) ? "delete" : (r.flags & 2) ? "atomic " : "",
          (r.flags & 4) ? "" : (r.flags & 1) ? "write" : "read", r.tid,
          pc_describe(r.pc, b2, sizeof b2));
}

static inline void access_gran(Thread* t, uintptr_t gran, unsigned lo, unsigned hi, bool write,
                               bool atomic, uintptr_t pc)
{
    Cell* c = cell_for(gran);
    if (!c) return;
    g_stat_races_checked++;
    uint8_t fl = (write ? 1 : 0) | (atomic ? 2 : 0);
    int same = -1, covered = -1, empty = -1;
    for (int i = 0; i < NREC; i++) {
        Rec& r = c->r[i];
        if (!r.epoch) {
            if (empty < 0) empty = i;
            continue;
        }
        bool overlap = r.lo < hi && lo < r.hi;
        if (r.tid == t->id) {
            if (r.lo == lo && r.hi == hi && (r.flags & 3) == fl) same = i;
            else if (overlap && r.lo >= lo && r.hi <= hi && (write || !(r.flags & 1)) &&
                     ((r.flags & 2) == (fl & 2)))
                covered = i;
            continue;
        }
        bool hb = r.epoch <= t->vc.c[r.tid];
        if (overlap && (write || (r.flags & 1)) && !((r.flags & 2) && atomic) && !hb)
            report_race(t, gran + lo, hi - lo, write, atomic, pc, r);
        if (hb && overlap && r.lo >= lo && r.hi <= hi && (write || !(r.flags & 1)) &&
            ((r.flags & 2) || !atomic))
            covered = i;  // ordered before us and subsumed by this access
    }
    int slot = same >= 0 ? same : covered >= 0 ? covered : empty >= 0 ? empty : -1;
    if (slot < 0) {
        slot = c->next;
        c->next = (uint8_t)((c->next + 1) % NREC);
    }
    Rec& r = c->r[slot];
    r.epoch = t->vc.c[t->id];
    r.tid = (uint8_t)t->id;
    r.lo = (uint8_t)lo;
    r.hi = (uint8_t)hi;
    r.flags = fl;
    r.pc = pc;
}

static void check_freed(Thread* t, uintptr_t a, size_t n, bool write, uintptr_t pc)
{
    int s = heap_state(a);
    int s2 = n > 1 ? heap_state(a + n - 1) : s;
    if (s == 2 || s2 == 2) {
        char buf[256], pcb[64];
        heap_describe_free(s == 2 ? a : a + n - 1, buf, sizeof buf);
        failf("use_after_free", "thread %d %s %zu bytes at %p (pc %s) inside a %s", t->id,
              write ? "writes" : "reads", n, (void*)a, pc_describe(pc, pcb, sizeof pcb), buf);
    }
}

void mem_access(uintptr_t a, size_t n, bool write, bool atomic, uintptr_t pc)
{
    Thread* t = tl_self;
    check_freed(t, a, n, write, pc);
    if (!g_check_races) return;
    uintptr_t end = a + n;
    while (a < end) {
        uintptr_t gran = a & ~(uintptr_t)7;
        unsigned lo = (unsigned)(a - gran);
        unsigned hi = (unsigned)((end - gran) > 8 ? 8 : (end - gran));
        access_gran(t, gran, lo, hi, write, atomic, pc);
        a = gran + 8;
    }
}

void mem_range(uintptr_t a, size_t n, bool write, uintptr_t pc)
{
    Thread* t = tl_self;
    if (heap_in_arena(a) || heap_in_arena(a + n - 1)) {
        // every granule of the range must be outside the quarantine
        for (uintptr_t p = a & ~(uintptr_t)7; p < a + n; p += 8)
            if (heap_state(p) == 2) {
                check_freed(t, p < a ? a : p, 1, write, pc);
            }
    }
    if (n > 4096) n = 4096;  // bound the cost; large copies are payload-free here
    mem_access(a, n, write, false, pc);
}

void mem_on_alloc(uintptr_t a, size_t n)
{
    shadow_init();
    // fresh block: no earlier access can conflict (addresses are never reused in a run)
    (void)a;
    (void)n;
}
void mem_on_free(uintptr_t a, size_t n, uintptr_t pc)
{
    Thread* t = tl_self;
    if (!g_check_races) return;
    // delete conflicts with every unordered earlier access to the block
    for (uintptr_t g = a; g < a + n; g += 8) {
        Cell* c = cell_for(g);
        if (!c) continue;
        for (int i = 0; i < NREC; i++) {
            Rec& r = c->r[i];
            if (r.epoch && r.tid != t->id && r.epoch > t->vc.c[r.tid]) {
                char b1[64], b2[64];
                failf("data_race",
                      "delete of block %p by thread %d (pc %s) is not ordered after %s%s by "
                      "thread %d (pc %s) at offset %zu",
                      (void*)a, t->id, pc_describe(pc, b1, sizeof b1),
                      (r.flags & 2) ? "atomic " : "", (r.flags & 1) ? "write" : "read", r.tid,
                      pc_describe(r.pc, b2, sizeof b2), (size_t)(g - a) + r.lo);
            }
        }
        memset(c, 0, sizeof *c);
        c->r[0].epoch = t->vc.c[t->id];
        c->r[0].tid = (uint8_t)t->id;
        c->r[0].lo = 0;
        c->r[0].hi = 8;
        c->r[0].flags = 1 | 4;
        c->r[0].pc = pc;
    }
}

// --------------------------------------------------------- atomics model
constexpr int HIST = 6;
struct Store {
    uint64_t val;
    VC rel;  // clock an acquiring reader obtains
    uint32_t epoch;  // writer's own component at the store (0: initial / external)
    int8_t tid;  // writer, -1 initial / external
    bool sc;
    uint32_t seen[MAXT];  // epoch at which thread i first read or wrote this store
};
struct Loc {
    uintptr_t addr;
    uint8_t size;
    int n;  // number of valid entries; entries[n-1] is mo-latest
    Store s[HIST];
    int last_sc;  // index of latest seq_cst store, -1 none
};
constexpr int LH = 1 << 12;
static Loc g_loc[LH];
static int g_lused[LH];
static int g_lnused = 0;

void mem_run_reset()
{
    for (int i = 0; i < g_lnused; i++) g_loc[g_lused[i]].addr = 0;
    g_lnused = 0;
    for (int i = 0; i < g_xnused; i++) {
        g_xkey[g_xused[i]] = 0;
        memset(&g_xcell[g_xused[i]], 0, sizeof(Cell));
    }
    g_xnused = 0;
    if (g_ashadow && g_ashadow_hw) memset(g_ashadow, 0, g_ashadow_hw * sizeof(Cell));
    g_ashadow_hw = 0;
}

static uint64_t raw_load(const void* p, int size)
{
    switch (size) {
        case 1: return __atomic_load_n((const uint8_t*)p, __ATOMIC_RELAXED);
        case 2: return __atomic_load_n((const uint16_t*)p, __ATOMIC_RELAXED);
        case 4: return __atomic_load_n((const uint32_t*)p, __ATOMIC_RELAXED);
        default: return __atomic_load_n((const uint64_t*)p, __ATOMIC_RELAXED);
    }
}
static void raw_store(void* p, int size, uint64_t v)
{
    switch (size) {
        case 1: __atomic_store_n((uint8_t*)p, (uint8_t)v, __ATOMIC_RELAXED); break;
        case 2: __atomic_store_n((uint16_t*)p, (uint16_t)v, __ATOMIC_RELAXED); break;
        case 4: __atomic_store_n((uint32_t*)p, (uint32_t)v, __ATOMIC_RELAXED); break;
        default: __atomic_store_n((uint64_t*)p, v, __ATOMIC_RELAXED); break;
    }
}
static inline uint64_t mask(int size)
{
    return size >= 8 ? ~0ull : ((1ull << (size * 8)) - 1);
}

static void push_store(Loc* l, const Store& s)
{
    if (l->n == HIST) {
        memmove(&l->s[0], &l->s[1], sizeof(Store) * (HIST - 1));
        l->n--;
        if (l->last_sc >= 0) l->last_sc--;
    }
    l->s[l->n++] = s;
}

static Loc* loc_get(void* addr, int size)
{
    uintptr_t a = (uintptr_t)addr;
    uint32_t h = (uint32_t)((a * 0x9E3779B97F4A7C15ull) >> 40) & (LH - 1);
    Loc* l = nullptr;
    for (int n = 0; n < LH; n++) {
        if (g_loc[h].addr == a && g_loc[h].size == size) {
            l = &g_loc[h];
            break;
        }
        if (!g_loc[h].addr) {
            if (g_lnused >= LH - 8) failf("harness", "atomic location table full");
            l = &g_loc[h];
            l->addr = a;
            l->size = (uint8_t)size;
            l->n = 0;
            l->last_sc = -1;
            g_lused[g_lnused++] = (int)h;
            break;
        }
        h = (h + 1) & (LH - 1);
    }
    uint64_t cur = raw_load(addr, size);
    if (l->n == 0 || l->s[l->n - 1].val != cur) {
        // initial value, or a write the model did not see (plain initialisation,
        // uninstrumented code): becomes the mo-latest store, visible to all
        Store s;
        memset(&s, 0, sizeof s);
        s.val = cur;
        s.tid = -1;
        s.sc = true;
        push_store(l, s);
        l->last_sc = l->n - 1;
    }
    return l;
}

enum { MO_RELAXED = 0, MO_CONSUME, MO_ACQUIRE, MO_RELEASE, MO_ACQ_REL, MO_SEQ_CST };
static inline bool is_acq(int mo)
{
    return mo == MO_CONSUME || mo == MO_ACQUIRE || mo == MO_ACQ_REL || mo == MO_SEQ_CST;
}
static inline bool is_rel(int mo)
{
    return mo == MO_RELEASE || mo == MO_ACQ_REL || mo == MO_SEQ_CST;
}

static void note_seen(Thread* t, Store& s)
{
    if (!s.seen[t->id]) s.seen[t->id] = t->vc.c[t->id];
}

static void read_sync(Thread* t, const Store& s, int mo)
{
    if (is_acq(mo))
        vc_join(t->vc, s.rel);
    else
        vc_join(t->acq_pending, s.rel);
}

static uint64_t model_load(Thread* t, void* addr, int size, int mo, uintptr_t pc)
{
    mem_access((uintptr_t)addr, (size_t)size, false, true, pc);
    Loc* l = loc_get(addr, size);
    int floor = 0;
    for (int i = l->n - 1; i > 0; i--) {
        Store& s = l->s[i];
        bool known = false;
        if (s.tid < 0)
            known = true;  // external / initial: visible to everyone
        else if (s.epoch <= t->vc.c[(int)s.tid])
            known = true;  // the store happens-before this load
        else
            for (int k = 0; k < MAXT && !known; k++)
                if (s.seen[k] && (k == t->id || s.seen[k] <= t->vc.c[k])) known = true;
        if (known) {
            floor = i;
            break;
        }
    }
    if (mo == MO_SEQ_CST && l->last_sc > floor) floor = l->last_sc;
    if (t->sc_fenced) floor = l->n - 1;
    int idx = l->n - 1;
    int nchoices = l->n - floor;
    if (nchoices > 1 && fault_enabled(D_READ)) {
        // decision: 0 = newest, k = k-th older
        int k = decide_uniform(D_READ, nchoices, 0, 500);
        idx = l->n - 1 - k;
        if (k) g_stat_stale_reads++;
    }
    Store& s = l->s[idx];
    note_seen(t, s);
    read_sync(t, s, mo);
    return s.val;
}

static void model_store_at(Thread* t, Loc* l, uint64_t v, int mo, bool rmw)
{
    Store s;
    memset(&s, 0, sizeof s);
    s.val = v;
    s.tid = (int8_t)t->id;
    s.epoch = t->vc.c[t->id];
    s.sc = mo == MO_SEQ_CST;
    if (is_rel(mo))
        s.rel = t->vc;
    else
        s.rel = t->fence_rel;
    Store& prev = l->s[l->n - 1];
    // release sequence: an RMW continues the sequence headed by the store it
    // replaces; a later store by the same thread continues it as well (C++11)
    if (rmw || prev.tid == t->id) vc_join(s.rel, prev.rel);
    s.seen[t->id] = t->vc.c[t->id];
    push_store(l, s);
    if (s.sc) l->last_sc = l->n - 1;
    raw_store((void*)l->addr, l->size, v);
    if (is_rel(mo) || !vc_zero(t->fence_rel)) t->vc.c[t->id]++;
}

static void model_store(Thread* t, void* addr, int size, uint64_t v, int mo, uintptr_t pc)
{
    mem_access((uintptr_t)addr, (size_t)size, true, true, pc);
    Loc* l = loc_get(addr, size);
    model_store_at(t, l, v & mask(size), mo, false);
}

void atomic_model_store8_release(void* addr, uint8_t v)
{
    Thread* t = tl_self;
    mem_access((uintptr_t)addr, 1, true, true, 0);
    Loc* l = loc_get(addr, 1);
    model_store_at(t, l, v, MO_RELEASE, false);
}

enum RmwOp { R_XCHG, R_ADD, R_SUB, R_AND, R_OR, R_XOR, R_NAND };

static uint64_t model_rmw(Thread* t, void* addr, int size, int op, uint64_t arg, int mo,
                          uintptr_t pc)
{
    mem_access((uintptr_t)addr, (size_t)size, true, true, pc);
    Loc* l = loc_get(addr, size);
    Store& cur = l->s[l->n - 1];
    uint64_t old = cur.val;
    note_seen(t, cur);
    read_sync(t, cur, mo);
    uint64_t nv = 0;
    switch (op) {
        case R_XCHG: nv = arg; break;
        case R_ADD: nv = old + arg; break;
        case R_SUB: nv = old - arg; break;
        case R_AND: nv = old & arg; break;
        case R_OR: nv = old | arg; break;
        case R_XOR: nv = old ^ arg; break;
        case R_NAND: nv = ~(old & arg); break;
    }
    model_store_at(t, l, nv & mask(size), mo, true);
    return old;
}

static bool model_cas(Thread* t, void* addr, int size, uint64_t* expected, uint64_t desired,
                      int mo, int fmo, uintptr_t pc)
{
    mem_access((uintptr_t)addr, (size_t)size, true, true, pc);
    Loc* l = loc_get(addr, size);
    Store& cur = l->s[l->n - 1];
    uint64_t old = cur.val;
    note_seen(t, cur);
    if (old == (*expected & mask(size))) {
        read_sync(t, cur, mo);
        model_store_at(t, l, desired & mask(size), mo, true);
        return true;
    }
    read_sync(t, cur, fmo);
    *expected = old;
    return false;
}

static void model_fence(Thread* t, int mo)
{
    if (is_acq(mo)) {
        vc_join(t->vc, t->acq_pending);
    }
    if (is_rel(mo)) {
        t->fence_rel = t->vc;
        t->vc.c[t->id]++;
    }
    if (mo == MO_SEQ_CST) t->sc_fenced = true;
}

}  // namespace gsim_rt

using namespace gsim_rt;

#define PC ((uintptr_t)__builtin_return_address(0))

// When the calling thread is not a simulated thread (or inside an oracle
// scope) the operation is executed directly with real atomics.
#define DIRECT() (!sim_thread_active())

extern "C" {

void __tsan_init() {}
void __tsan_func_entry(void*) {}
void __tsan_func_exit() {}
void __tsan_ignore_thread_begin() {}
void __tsan_ignore_thread_end() {}

static inline void plain_hook(void* a, size_t n, bool write, uintptr_t pc)
{
    if (!sim_thread_active()) return;
    if (heap_in_arena((uintptr_t)a)) plain_access_point(a);
    mem_access((uintptr_t)a, n, write, false, pc);
}

#define PLAIN(N)                                                               \
    void __tsan_read##N(void* a) { plain_hook(a, N, false, PC); }              \
    void __tsan_write##N(void* a) { plain_hook(a, N, true, PC); }                                                                          \
    void __tsan_unaligned_read##N(void* a)                                     \
    {                                                                          \
        if (sim_thread_active()) mem_access((uintptr_t)a, N, false, false, PC); \
    }                                                                          \
    void __tsan_unaligned_write##N(void* a)                                    \
    {                                                                          \
        if (sim_thread_active()) mem_access((uintptr_t)a, N, true, false, PC); \
    }                                                                          \
    void __tsan_read##N##_pc(void* a, void* pc)                                \
    {                                                                          \
        if (sim_thread_active()) mem_access((uintptr_t)a, N, false, false, (uintptr_t)pc); \
    }                                                                          \
    void __tsan_write##N##_pc(void* a, void* pc)                               \
    {                                                                          \
        if (sim_thread_active()) mem_access((uintptr_t)a, N, true, false, (uintptr_t)pc); \
    }
PLAIN(1)
PLAIN(2)
PLAIN(4)
PLAIN(8)
PLAIN(16)

void __tsan_read_range(void* a, unsigned long n)
{
    if (sim_thread_active() && n) mem_range((uintptr_t)a, n, false, PC);
}
void __tsan_write_range(void* a, unsigned long n)
{
    if (sim_thread_active() && n) mem_range((uintptr_t)a, n, true, PC);
}
void __tsan_vptr_update(void** vptr_p, void* new_val)
{
    if (sim_thread_active() && *vptr_p != new_val)
        mem_access((uintptr_t)vptr_p, 8, true, false, PC);
}
void __tsan_vptr_read(void** vptr_p)
{
    if (sim_thread_active()) mem_access((uintptr_t)vptr_p, 8, false, false, PC);
}

void __tsan_atomic_thread_fence(int mo)
{
    if (DIRECT()) {
        __atomic_thread_fence(__ATOMIC_SEQ_CST);
        return;
    }
    Thread* t = tl_self;
    RtScope rs(t);
    sched_point(E_FENCE, nullptr);
    model_fence(t, mo);
}
void __tsan_atomic_signal_fence(int) {}

#define ATOMICS(BITS, T, SZ)                                                   \
    T __tsan_atomic##BITS##_load(const volatile T* a, int mo)                  \
    {                                                                          \
        if (DIRECT()) return __atomic_load_n(a, __ATOMIC_SEQ_CST);             \
        Thread* t = tl_self;                                                   \
        RtScope rs(t);                                                         \
        sched_point(E_ALOAD, (const void*)a);                                  \
        T v = (T)model_load(t, (void*)a, SZ, mo, PC);                          \
        event_result((uint64_t)v);                                             \
        return v;                                                              \
    }                                                                          \
    void __tsan_atomic##BITS##_store(volatile T* a, T v, int mo)               \
    {                                                                          \
        if (DIRECT()) {                                                        \
            __atomic_store_n(a, v, __ATOMIC_SEQ_CST);                          \
            return;                                                            \
        }                                                                      \
        Thread* t = tl_self;                                                   \
        RtScope rs(t);                                                         \
        sched_point(E_ASTORE, (const void*)a);                                 \
        model_store(t, (void*)a, SZ, (uint64_t)v, mo, PC);                     \
        event_result((uint64_t)v);                                             \
    }                                                                          \
    T __tsan_atomic##BITS##_exchange(volatile T* a, T v, int mo)               \
    {                                                                          \
        if (DIRECT()) return __atomic_exchange_n(a, v, __ATOMIC_SEQ_CST);      \
        Thread* t = tl_self;                                                   \
        RtScope rs(t);                                                         \
        sched_point(E_ARMW, (const void*)a);                                   \
        T o = (T)model_rmw(t, (void*)a, SZ, R_XCHG, (uint64_t)v, mo, PC);      \
        event_result((uint64_t)o);                                             \
        return o;                                                              \
    }                                                                          \
    T __tsan_atomic##BITS##_fetch_add(volatile T* a, T v, int mo)              \
    {                                                                          \
        if (DIRECT()) return __atomic_fetch_add(a, v, __ATOMIC_SEQ_CST);       \
        Thread* t = tl_self;                                                   \
        RtScope rs(t);                                                         \
        sched_point(E_ARMW, (const void*)a);                                   \
        T o = (T)model_rmw(t, (void*)a, SZ, R_ADD, (uint64_t)v, mo, PC);       \
        event_result((uint64_t)o);                                             \
        return o;                                                              \
    }                                                                          \
    T __tsan_atomic##BITS##_fetch_sub(volatile T* a, T v, int mo)              \
    {                                                                          \
        if (DIRECT()) return __atomic_fetch_sub(a, v, __ATOMIC_SEQ_CST);       \
        Thread* t = tl_self;                                                   \
        RtScope rs(t);                                                         \
        sched_point(E_ARMW, (const void*)a);                                   \
        T o = (T)model_rmw(t, (void*)a, SZ, R_SUB, (uint64_t)v, mo, PC);       \
        event_result((uint64_t)o);                                             \
        return o;                                                              \
    }                                                                          \
    T __tsan_atomic##BITS##_fetch_and(volatile T* a, T v, int mo)              \
    {                                                                          \
        if (DIRECT()) return __atomic_fetch_and(a, v, __ATOMIC_SEQ_CST);       \
        Thread* t = tl_self;                                                   \
        RtScope rs(t);                                                         \
        sched_point(E_ARMW, (const void*)a);                                   \
        T o = (T)model_rmw(t, (void*)a, SZ, R_AND, (uint64_t)v, mo, PC);       \
        event_result((uint64_t)o);                                             \
        return o;                                                              \
    }                                                                          \
    T __tsan_atomic##BITS##_fetch_or(volatile T* a, T v, int mo)               \
    {                                                                          \
        if (DIRECT()) return __atomic_fetch_or(a, v, __ATOMIC_SEQ_CST);        \
        Thread* t = tl_self;                                                   \
        RtScope rs(t);                                                         \
        sched_point(E_ARMW, (const void*)a);                                   \
        T o = (T)model_rmw(t, (void*)a, SZ, R_OR, (uint64_t)v, mo, PC);        \
        event_result((uint64_t)o);                                             \
        return o;                                                              \
    }                                                                          \
    T __tsan_atomic##BITS##_fetch_xor(volatile T* a, T v, int mo)              \
    {                                                                          \
        if (DIRECT()) return __atomic_fetch_xor(a, v, __ATOMIC_SEQ_CST);       \
        Thread* t = tl_self;                                                   \
        RtScope rs(t);                                                         \
        sched_point(E_ARMW, (const void*)a);                                   \
        T o = (T)model_rmw(t, (void*)a, SZ, R_XOR, (uint64_t)v, mo, PC);       \
        event_result((uint64_t)o);                                             \
        return o;                                                              \
    }                                                                          \
    T __tsan_atomic##BITS##_fetch_nand(volatile T* a, T v, int mo)             \
    {                                                                          \
        if (DIRECT()) return __atomic_fetch_nand(a, v, __ATOMIC_SEQ_CST);      \
        Thread* t = tl_self;                                                   \
        RtScope rs(t);                                                         \
        sched_point(E_ARMW, (const void*)a);                                   \
        T o = (T)model_rmw(t, (void*)a, SZ, R_NAND, (uint64_t)v, mo, PC);      \
        event_result((uint64_t)o);                                             \
        return o;                                                              \
    }                                                                          \
    int __tsan_atomic##BITS##_compare_exchange_strong(volatile T* a, T* c, T v, int mo,     \
                                                      int fmo)                 \
    {                                                                          \
        if (DIRECT())                                                          \
            return __atomic_compare_exchange_n(a, c, v, false, __ATOMIC_SEQ_CST,            \
                                               __ATOMIC_SEQ_CST);              \
        Thread* t = tl_self;                                                   \
        RtScope rs(t);                                                         \
        sched_point(E_ACAS, (const void*)a);                                   \
        uint64_t e = (uint64_t)*c;                                             \
        bool ok = model_cas(t, (void*)a, SZ, &e, (uint64_t)v, mo, fmo, PC);    \
        if (!ok) *c = (T)e;                                                    \
        event_result(ok ? 1 : 0);                                              \
        return ok;                                                             \
    }                                                                          \
    int __tsan_atomic##BITS##_compare_exchange_weak(volatile T* a, T* c, T v, int mo,       \
                                                    int fmo)                   \
    {                                                                          \
        return __tsan_atomic##BITS##_compare_exchange_strong(a, c, v, mo, fmo); \
    }                                                                          \
    T __tsan_atomic##BITS##_compare_exchange_val(volatile T* a, T c, T v, int mo, int fmo)  \
    {                                                                          \
        T e = c;                                                               \
        __tsan_atomic##BITS##_compare_exchange_strong(a, &e, v, mo, fmo);      \
        return e;                                                              \
    }

ATOMICS(8, uint8_t, 1)
ATOMICS(16, uint16_t, 2)
ATOMICS(32, uint32_t, 4)
ATOMICS(64, uint64_t, 8)

}  // extern "C"
