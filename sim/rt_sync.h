// internal: blocking helpers shared by rt.cpp and rt_sync.cpp
#pragma once
#include "rt_internal.h"
namespace gsim_rt {
void block_here();
bool harness_enabled(Thread* t);
Thread* thread_by_id(int i);
int thread_count();
int decide_uniform(int dkind, int n, int dflt, int permille_nondefault);
extern int g_rw_pref;
}  // namespace gsim_rt
