// count distinct 64-bit hashes over a set of binary files
#include <algorithm>
#include <cstdint>
#include <cstdio>
#include <vector>
int main(int argc, char** argv)
{
    std::vector<uint64_t> v;
    for (int i = 1; i < argc; i++) {
        FILE* f = fopen(argv[i], "rb");
        if (!f) continue;
        uint64_t buf[8192];
        size_t n;
        while ((n = fread(buf, 8, 8192, f)) > 0) v.insert(v.end(), buf, buf + n);
        fclose(f);
    }
    std::sort(v.begin(), v.end());
    printf("%zu\n", (size_t)(std::unique(v.begin(), v.end()) - v.begin()));
    return 0;
}
