// gsim driver: search over seeds or replay one file.
//   wl --search --verif-seed S --from I --count N [--stride K --offset J]
//      [--time-ms T] --prop Cxx [--tier thorough] [--set k=v]... --fail-out P
//      [--hashes P] [--samples n]
//   wl --replay file.json [--trace out.txt] [--fail-out P]
// exit: 0 all runs passed, 3 a run failed (FAIL line printed, replay file
// written), 2 infrastructure error.
#include "gsim.h"
#include "rt_ctl.h"

#include <sched.h>
#include <sys/personality.h>
#include <sys/wait.h>
#include <time.h>
#include <unistd.h>

#include <cstdio>
#include <cstdlib>
#include <cstring>
#include <chrono>
#include <condition_variable>
#include <exception>
#include <functional>
#include <future>
#include <map>
#include <memory>
#include <mutex>
#include <shared_mutex>
#include <stdexcept>
#include <thread>
#include <string>
#include <unordered_set>
#include <vector>

extern "C" int __llvm_profile_write_file(void) __attribute__((weak));  // present in bin/coverage builds only

namespace {

// ------------------------------------------------------------ tiny JSON
struct JV {
    enum T { NUL, NUM, STR, ARR, OBJ, BOOL } t = NUL;
    double num = 0;
    std::string str;
    std::vector<JV> arr;
    std::vector<std::pair<std::string, JV>> obj;
    const JV* get(const char* k) const
    {
        for (auto& p : obj)
            if (p.first == k) return &p.second;
        return nullptr;
    }
};
struct JP {
    const char* p;
    bool ok = true;
    void ws()
    {
        while (*p == ' ' || *p == '\n' || *p == '\t' || *p == '\r') p++;
    }
    JV parse()
    {
        JV v;
        ws();
        if (*p == '{') {
            v.t = JV::OBJ;
            p++;
            ws();
            if (*p == '}') {
                p++;
                return v;
            }
            for (;;) {
                ws();
                JV k = parse();
                ws();
                if (*p != ':') {
                    ok = false;
                    return v;
                }
                p++;
                JV val = parse();
                v.obj.emplace_back(k.str, std::move(val));
                ws();
                if (*p == ',') {
                    p++;
                    continue;
                }
                if (*p == '}') {
                    p++;
                    return v;
                }
                ok = false;
                return v;
            }
        }
        if (*p == '[') {
            v.t = JV::ARR;
            p++;
            ws();
            if (*p == ']') {
                p++;
                return v;
            }
            for (;;) {
                v.arr.push_back(parse());
                ws();
                if (*p == ',') {
                    p++;
                    continue;
                }
                if (*p == ']') {
                    p++;
                    return v;
                }
                ok = false;
                return v;
            }
        }
        if (*p == '"') {
            v.t = JV::STR;
            p++;
            while (*p && *p != '"') {
                if (*p == '\\' && p[1]) {
                    p++;
                    if (*p == 'n')
                        v.str += '\n';
                    else if (*p == 'u') {
                        v.str += '?';
                        p += 4;
                    } else
                        v.str += *p;
                    p++;
                } else
                    v.str += *p++;
            }
            if (*p == '"') p++;
            return v;
        }
        if (!strncmp(p, "true", 4)) {
            v.t = JV::BOOL;
            v.num = 1;
            p += 4;
            return v;
        }
        if (!strncmp(p, "false", 5)) {
            v.t = JV::BOOL;
            p += 5;
            return v;
        }
        if (!strncmp(p, "null", 4)) {
            p += 4;
            return v;
        }
        char* e;
        v.t = JV::NUM;
        v.num = strtod(p, &e);
        if (e == p) {
            ok = false;
            p++;
        } else
            p = e;
        return v;
    }
};

uint64_t mix64(uint64_t z)
{
    z = (z ^ (z >> 30)) * 0xBF58476D1CE4E5B9ull;
    z = (z ^ (z >> 27)) * 0x94D049BB133111EBull;
    return z ^ (z >> 31);
}
uint64_t str_hash(const char* s)
{
    uint64_t h = 0xcbf29ce484222325ull;
    for (; *s; s++) h = (h ^ (unsigned char)*s) * 0x100000001B3ull;
    return h;
}
double now_s()
{
    struct timespec ts;
    clock_gettime(CLOCK_MONOTONIC, &ts);
    return ts.tv_sec + ts.tv_nsec * 1e-9;
}

std::string slurp(const char* path)
{
    std::string s;
    FILE* f = fopen(path, "r");
    if (!f) return s;
    char buf[65536];
    size_t n;
    while ((n = fread(buf, 1, sizeof buf, f)) > 0) s.append(buf, n);
    fclose(f);
    return s;
}

}  // namespace

// Process-wide one-time initialisations inside libstdc++ / libgcc (unwinder
// tables, error categories, locale bits ...) go through pthread_once /
// __cxa_guard_*; if the first use happened inside a simulated run it would add
// scheduling points to that run only, and a replay in a fresh process would
// see a different event sequence than run N of a long-lived worker.  Do them
// all here, outside any run.
__attribute__((noinline)) static void warm_up_process()
{
    try {
        throw gsim::injected{0, 0};
    }
    catch (const gsim::injected&) {
    }
    try {
        throw std::runtime_error("warm-up");
    }
    catch (const std::exception&) {
    }
    try {
        std::vector<int> v(1);
        (void)v.at(3);
    }
    catch (const std::out_of_range&) {
    }
    {
        // libstdc++'s pool of mutexes behind std::atomic_load/atomic_store(shared_ptr*) is a
        // function-local static: initialise it now, not inside some run
        std::shared_ptr<int> sp = std::make_shared<int>(1);
        std::shared_ptr<int> q = std::atomic_load(&sp);
        std::atomic_store(&sp, q);
        std::shared_ptr<int> e = q;
        (void)std::atomic_compare_exchange_strong(&sp, &e, q);
    }
    {
        std::promise<int> p;
        auto f = p.get_future();
        p.set_value(1);
        (void)f.get();
    }
    {
        std::future<int> g;
        {
            std::promise<int> q;
            g = q.get_future();
        }
        try {
            (void)g.get();
        }
        catch (const std::future_error&) {
        }
    }
    try {
        std::promise<std::string> r;
        r.set_value("a");
        r.set_value("b");
    }
    catch (const std::future_error&) {
    }
    {
        std::packaged_task<int(int)> t([](int x) { return x + 1; });
        auto f = t.get_future();
        t(1);
        (void)f.get();
        std::packaged_task<void()> t2([] { throw gsim::injected{1, 1}; });
        auto f2 = t2.get_future();
        t2();
        try {
            f2.get();
        }
        catch (const gsim::injected&) {
        }
    }
    {
        std::exception_ptr ep;
        try {
            throw gsim::injected{2, 2};
        }
        catch (...) {
            ep = std::current_exception();
        }
        try {
            std::rethrow_exception(ep);
        }
        catch (const gsim::injected&) {
        }
    }
    {
        std::once_flag fl;
        std::call_once(fl, [] {});
        std::mutex m;
        std::condition_variable cv;
        std::unique_lock<std::mutex> lk(m);
        cv.wait_for(lk, std::chrono::nanoseconds(1));
        std::shared_timed_mutex sm;
        (void)sm.try_lock_shared_for(std::chrono::nanoseconds(1));
        sm.unlock_shared();
        std::timed_mutex tm;
        (void)tm.try_lock_for(std::chrono::nanoseconds(1));
        tm.unlock();
        (void)std::chrono::steady_clock::now();
        (void)std::chrono::system_clock::now();
        std::this_thread::yield();
        std::this_thread::sleep_for(std::chrono::nanoseconds(1));
    }
    {
        std::string s = std::to_string(12345) + "x";
        (void)std::stol("42");
        std::shared_ptr<int> sp = std::make_shared<int>(1);
        std::weak_ptr<int> wp = sp;
        (void)wp.lock();
        std::function<void()> fn = [sp] {};
        fn();
        std::map<std::string, int> mp;
        mp["k"] = 1;
    }
}

int main(int argc, char** argv)
{
    // identical addresses in every process: easier debugging, and nothing can
    // depend on ASLR
    if (!getenv("GSIM_NO_REEXEC") && !(personality(0xffffffff) & ADDR_NO_RANDOMIZE)) {
        if (personality(ADDR_NO_RANDOMIZE) != -1) {
            setenv("GSIM_NO_REEXEC", "1", 1);
            execv("/proc/self/exe", argv);
        }
    }
    bool search = false;
    bool fork_each = false;
    const char* replay = nullptr;
    const char* trace = nullptr;
    const char* hashes = nullptr;
    const char* dump_dir = nullptr;
    uint64_t dump_every = 1;
    const char* wlname = nullptr;
    uint64_t verif_seed = 1, from = 0, count = 1000, stride = 1, offset = 0;
    long time_ms = 0;
    int nsamples = 2;
    std::string params_key;
    for (int i = 1; i < argc; i++) {
        std::string a = argv[i];
        auto next = [&]() -> const char* {
            if (i + 1 >= argc) {
                fprintf(stderr, "missing value for %s\n", a.c_str());
                exit(2);
            }
            return argv[++i];
        };
        if (a == "--search")
            search = true;
        else if (a == "--fork-each")
            fork_each = true;
        else if (a == "--replay")
            replay = next();
        else if (a == "--trace")
            trace = next();
        else if (a == "--workload")
            wlname = next();
        else if (a == "--verif-seed")
            verif_seed = strtoull(next(), nullptr, 10);
        else if (a == "--from")
            from = strtoull(next(), nullptr, 10);
        else if (a == "--count")
            count = strtoull(next(), nullptr, 10);
        else if (a == "--stride")
            stride = strtoull(next(), nullptr, 10);
        else if (a == "--offset")
            offset = strtoull(next(), nullptr, 10);
        else if (a == "--time-ms")
            time_ms = atol(next());
        else if (a == "--prop")
            gsim_ctl::set_property(next());
        else if (a == "--tier")
            gsim_ctl::set_thorough(!strcmp(next(), "thorough"));
        else if (a == "--fail-out")
            gsim_ctl::set_fail_out(next());
        else if (a == "--hashes")
            hashes = next();
        else if (a == "--dump-dir")
            dump_dir = next();
        else if (a == "--dump-every")
            dump_every = strtoull(next(), nullptr, 10);
        else if (a == "--samples")
            nsamples = atoi(next());
        else if (a == "--limits") {
            long sf = atol(next());
            long sm = atol(next());
            gsim_ctl::set_limits(sf, sm);
            // recorded as parameters so that a replay file carries them
            gsim_ctl::set_param("s_fault", std::to_string(sf).c_str());
            gsim_ctl::set_param("s_max", std::to_string(sm).c_str());
        } else if (a == "--set") {
            std::string kv = next();
            size_t eq = kv.find('=');
            if (eq == std::string::npos) {
                fprintf(stderr, "--set needs k=v\n");
                return 2;
            }
            gsim_ctl::set_param(kv.substr(0, eq).c_str(), kv.substr(eq + 1).c_str());
            params_key += kv + ";";
        } else {
            fprintf(stderr, "unknown argument %s\n", a.c_str());
            return 2;
        }
    }
    if (!getenv("GSIM_NO_PIN") && search) {
        // one core per worker process: baton hand-offs become same-core switches
        long ncpu = sysconf(_SC_NPROCESSORS_ONLN);
        cpu_set_t set;
        CPU_ZERO(&set);
        CPU_SET((int)(offset % (uint64_t)(ncpu > 0 ? ncpu : 1)), &set);
        sched_setaffinity(0, sizeof set, &set);
    }
    const gsim::Workload* w =
        wlname ? gsim_ctl::find_workload(wlname) : gsim_ctl::first_workload();
    gsim_ctl::install_crash_handlers();
    warm_up_process();

    if (replay) {
        std::string text = slurp(replay);
        JP jp{text.c_str()};
        JV root = jp.parse();
        if (!jp.ok || root.t != JV::OBJ) {
            fprintf(stderr, "gsim: cannot parse %s\n", replay);
            return 2;
        }
        if (const JV* wn = root.get("workload")) {
            if (const gsim::Workload* w2 = gsim_ctl::find_workload(wn->str.c_str())) w = w2;
        }
        if (!w) {
            fprintf(stderr, "gsim: no workload\n");
            return 2;
        }
        gsim_ctl::use_workload(w);
        if (const JV* p = root.get("property")) gsim_ctl::set_property(p->str.c_str());
        if (const JV* ps = root.get("params"))
            for (auto& kv : ps->obj) gsim_ctl::set_param(kv.first.c_str(), kv.second.str.c_str());
        if (gsim::param_int("s_max", 0) > 0)
            gsim_ctl::set_limits(gsim::param_int("s_fault", 4000), gsim::param_int("s_max", 40000));
        gsim_ctl::replay_begin();
        if (const JV* ks = root.get("knobs"))
            for (auto& kv : ks->obj) gsim_ctl::replay_knob(kv.first.c_str(), (int)kv.second.num);
        if (const JV* pr = root.get("program")) {
            gsim::prog_reset((int)pr->arr.size());
            for (size_t t = 0; t < pr->arr.size(); t++)
                for (auto& o : pr->arr[t].arr) {
                    if (o.arr.size() < 4) continue;
                    int code = o.arr[0].t == JV::STR ?
                        gsim_ctl::op_code_by_name(o.arr[0].str.c_str()) :
                        (int)o.arr[0].num;
                    if (code < 0) {
                        fprintf(stderr, "gsim: unknown op %s\n", o.arr[0].str.c_str());
                        return 2;
                    }
                    gsim::prog_add((int)t, gsim::Op{code, (int)o.arr[1].num, (int)o.arr[2].num,
                                                    (int)o.arr[3].num});
                }
        }
        if (const JV* ov = root.get("overrides"))
            for (auto& o : ov->arr) {
                if (o.arr.size() < 4) continue;
                int kind = o.arr[1].t == JV::STR ? gsim_ctl::dkind_by_name(o.arr[1].str.c_str()) :
                                                   (int)o.arr[1].num;
                if (kind < 0) continue;
                gsim_ctl::replay_override((int)o.arr[0].num, kind, (int)o.arr[2].num,
                                          (int)o.arr[3].num);
            }
        uint64_t vs = 0, ri = 0;
        if (const JV* x = root.get("verif_seed")) vs = (uint64_t)x->num;
        if (const JV* x = root.get("run_index")) ri = (uint64_t)x->num;
        gsim_ctl::set_meta(vs, ri);
        FILE* tf = nullptr;
        if (trace) {
            tf = !strcmp(trace, "-") ? stdout : fopen(trace, "w");
            gsim_ctl::set_trace(tf);
        }
        gsim_ctl::run_replay(w);
        const auto& st = gsim_ctl::last_stats();
        if (tf && tf != stdout) fclose(tf);
        printf("PASS hash=%016llx steps=%llu\n", (unsigned long long)st.event_hash,
               (unsigned long long)st.steps);
        return 0;
    }

    if (!search || !w) {
        fprintf(stderr, "usage: %s --search ... | --replay file\n", argv[0]);
        return 2;
    }
    bool print_runs = getenv("GSIM_PRINT_RUNS") != nullptr;
    std::unordered_set<uint64_t> distinct;
    uint64_t runs = 0, steps = 0, switches = 0, preempt = 0, nontrivial = 0;
    uint64_t by_strategy[gsim_ctl::N_STRATEGIES] = {0};
    uint64_t by_threads[gsim::MAX_THREADS + 1] = {0};
    int64_t sim_ns = 0;
    uint64_t max_steps = 0;
    double t0 = now_s();
    uint64_t base = mix64(verif_seed * 0x9E3779B97F4A7C15ull ^ str_hash(w->name) ^
                          mix64(str_hash(params_key.c_str())));
    std::vector<std::string> samples;
    std::map<std::string, uint64_t> fork_probes;
    uint64_t fork_faults[16] = {0};
    for (uint64_t i = 0; i < count; i++) {
        uint64_t idx = from + i * stride + offset;
        if (time_ms > 0 && (i & 63) == 0 && (now_s() - t0) * 1000 > time_ms) break;
        gsim_ctl::set_meta(verif_seed, idx);
        static const char* trace_run = getenv("GSIM_TRACE_RUN");  // debugging: trace one search run
        FILE* search_trace = nullptr;
        if (trace_run && strtoull(trace_run, nullptr, 10) == idx) {
            search_trace = fopen("/var/tmp/gsim-search-trace.txt", "w");
            gsim_ctl::set_trace(search_trace);
        }
        gsim_ctl::RunStats forked_st;
        if (fork_each) {
            // process-wide state (static trip lines) makes runs order dependent:
            // every run gets a fresh child of this still single-threaded process
            int pfd[2];
            if (pipe(pfd) != 0) return 2;
            fflush(stdout);
            pid_t pid = fork();
            if (pid == 0) {
                close(pfd[0]);
                gsim_ctl::run_search(w, mix64(base + idx * 0xD1B54A32D192ED03ull));
                gsim_ctl::RunStats cs = gsim_ctl::last_stats();
                uint64_t extra[16] = {0};
                for (int d = 1; d < 10; d++) extra[d] = gsim_ctl::fault_fired(d);
                if (write(pfd[1], &cs, sizeof cs) != (ssize_t)sizeof cs) _exit(2);
                if (write(pfd[1], extra, sizeof extra) != (ssize_t)sizeof extra) _exit(2);
                int np = gsim_ctl::probe_count();
                if (write(pfd[1], &np, sizeof np) != (ssize_t)sizeof np) _exit(2);
                for (int p = 0; p < np; p++) {
                    char nm[64] = {0};
                    snprintf(nm, sizeof nm, "%s", gsim_ctl::probe_name(p));
                    uint64_t v = gsim_ctl::probe_value(p);
                    if (write(pfd[1], nm, sizeof nm) != (ssize_t)sizeof nm) _exit(2);
                    if (write(pfd[1], &v, sizeof v) != (ssize_t)sizeof v) _exit(2);
                }
                if (__llvm_profile_write_file) __llvm_profile_write_file();
                _exit(0);
            }
            close(pfd[1]);
            uint64_t extra[16];
            bool ok = read(pfd[0], &forked_st, sizeof forked_st) == (ssize_t)sizeof forked_st &&
                read(pfd[0], extra, sizeof extra) == (ssize_t)sizeof extra;
            int np = 0;
            if (ok) ok = read(pfd[0], &np, sizeof np) == (ssize_t)sizeof np;
            for (int p = 0; ok && p < np; p++) {
                char nm[64];
                uint64_t v = 0;
                ok = read(pfd[0], nm, sizeof nm) == (ssize_t)sizeof nm &&
                    read(pfd[0], &v, sizeof v) == (ssize_t)sizeof v;
                if (ok) fork_probes[nm] += v;
            }
            close(pfd[0]);
            int wst = 0;
            waitpid(pid, &wst, 0);
            int code = WIFEXITED(wst) ? WEXITSTATUS(wst) : 2;
            if (code == 3) return 3;  // the child printed the FAIL line and wrote the replay file
            if (code != 0 || !ok) {
                fprintf(stderr, "gsim: forked run %llu ended with status %d\n",
                        (unsigned long long)idx, code);
                return 2;
            }
            for (int d = 1; d < 10; d++) fork_faults[d] += extra[d];
        } else {
            gsim_ctl::run_search(w, mix64(base + idx * 0xD1B54A32D192ED03ull));
        }
        if (search_trace) {
            gsim_ctl::set_trace(nullptr);
            fclose(search_trace);
        }
        const auto& st = fork_each ? forked_st : gsim_ctl::last_stats();
        if (dump_dir && !fork_each && idx % dump_every == 0) {
            char path[600];
            snprintf(path, sizeof path, "%s/run-%llu.json", dump_dir, (unsigned long long)idx);
            FILE* df = fopen(path, "w");
            if (df) {
                gsim_ctl::dump_run_json(df, "sample", "", -1);
                fclose(df);
            }
        }
        if (print_runs)
            printf("RUN %llu %016llx %llu\n", (unsigned long long)idx,
                   (unsigned long long)st.event_hash, (unsigned long long)st.steps);
        runs++;
        steps += st.steps;
        switches += st.switches;
        preempt += st.preemptions;
        sim_ns += st.sim_ns;
        if (st.steps > max_steps) max_steps = st.steps;
        by_strategy[st.strategy]++;
        by_threads[st.nthreads]++;
        if (st.preemptions > 0) {
            nontrivial++;
            if (distinct.size() < 4000000) distinct.insert(st.event_hash);
            if ((int)samples.size() < nsamples && (i % 97) == 13 % 97) {
            }
        }
        if (!fork_each && (int)samples.size() < nsamples && st.preemptions > 0 &&
            (samples.empty() || i > count / 2)) {
            char* buf = nullptr;
            size_t len = 0;
            FILE* mf = open_memstream(&buf, &len);
            gsim_ctl::dump_run_json(mf, "sample", "", 24);
            fclose(mf);
            std::string s(buf, len);
            while (!s.empty() && s.back() == '\n') s.pop_back();
            samples.push_back(s);
            free(buf);
        }
    }
    double wall = now_s() - t0;
    if (hashes) {
        FILE* hf = fopen(hashes, "wb");
        if (hf) {
            for (uint64_t h : distinct) fwrite(&h, 8, 1, hf);
            fclose(hf);
        }
    }
    printf("STATS {\"workload\":\"%s\",\"runs\":%llu,\"steps\":%llu,\"max_steps\":%llu,"
           "\"switches\":%llu,\"preemptions\":%llu,\"nontrivial\":%llu,\"distinct\":%zu,"
           "\"sim_ns\":%lld,\"wall_s\":%.3f",
           w->name, (unsigned long long)runs, (unsigned long long)steps,
           (unsigned long long)max_steps, (unsigned long long)switches,
           (unsigned long long)preempt, (unsigned long long)nontrivial, distinct.size(),
           (long long)sim_ns, wall);
    printf(",\"strategies\":{");
    for (int s = 0; s < gsim_ctl::N_STRATEGIES; s++)
        printf("%s\"%s\":%llu", s ? "," : "", gsim_ctl::strategy_name(s),
               (unsigned long long)by_strategy[s]);
    printf("},\"threads\":{");
    bool first = true;
    for (int t = 1; t <= gsim::MAX_THREADS; t++)
        if (by_threads[t]) {
            printf("%s\"%d\":%llu", first ? "" : ",", t, (unsigned long long)by_threads[t]);
            first = false;
        }
    printf("},\"faults\":{");
    for (int d = 1; d < 10; d++)
        printf("%s\"%s\":%llu", d > 1 ? "," : "", gsim_ctl::dkind_name(d),
               (unsigned long long)(fork_each ? fork_faults[d] : gsim_ctl::fault_fired(d)));
    printf("},\"probes\":{");
    if (fork_each) {
        bool f1 = true;
        for (auto& kv : fork_probes) {
            printf("%s\"%s\":%llu", f1 ? "" : ",", kv.first.c_str(), (unsigned long long)kv.second);
            f1 = false;
        }
    } else
        for (int p = 0; p < gsim_ctl::probe_count(); p++)
            printf("%s\"%s\":%llu", p ? "," : "", gsim_ctl::probe_name(p),
                   (unsigned long long)gsim_ctl::probe_value(p));
    printf("},\"samples\":[");
    for (size_t s = 0; s < samples.size(); s++) printf("%s%s", s ? "," : "", samples[s].c_str());
    printf("]}\n");
    fflush(stdout);
    return 0;
}
