// gsim — deterministic simulator for GMLC-TDC/concurrency: public API.
// Implemented in sim/rt.cpp (uninstrumented, STL-free).  Workload translation
// units are compiled with -fsanitize=thread for instrumentation only and are
// linked against rt.o instead of the TSan runtime.
#pragma once
#include <cstddef>
#include <cstdint>

namespace gsim {

// ---------------------------------------------------------------- programs
struct Op {
    int code, a, b, c;
};
constexpr int MAX_THREADS = 8;
constexpr int MAX_OPS = 24;

/// true when the program came from a replay file (generator must be skipped)
bool prog_loaded();
void prog_reset(int nthreads);
void prog_add(int thread, Op op);
int prog_nthreads();
int prog_len(int thread);
Op prog_op(int thread, int i);
/// op vocabulary (names used in replay files / traces)
void op_names(const char* const* names, int n);

/// draw from the program stream (search mode only)
int gen_int(int n);
/// per-run knob: drawn from the knob stream in search mode, read from the
/// replay file otherwise (missing => lo)
int knob(const char* name, int lo, int hi);
/// string/int parameters given on the command line with --set k=v
const char* param(const char* name, const char* dflt);
int param_int(const char* name, int dflt);
const char* property();  ///< property id the run is scored for ("C03")
bool thorough();

// ---------------------------------------------------------------- threads
using thread_fn = void (*)(void*);
int spawn(thread_fn fn, void* arg);
void join(int tid);
int self();
/// plain scheduling point
void yield();
/// global event sequence number (number of scheduling steps so far)
uint64_t seq();
/// simulated clock, ns
int64_t now_ns();

// ------------------------------------------------------ decisions / faults
/// recorded decision in [0,n); default (canonical) value is 0
int choose(int n);
enum Fault {
    F_SPURIOUS_WAKE = 0,
    F_TIME_JUMP,
    F_SPURIOUS_TRYLOCK,
    F_STALE_READ,
    F_THROW,
    F_ALLOC_FAIL,  ///< harness-level: an allocator handed to the library fails (recorded decision)
    F_NKINDS
};
/// enable a fault kind for this run with a firing probability in permille
void enable_fault(Fault f, int permille);
/// ask whether a harness-level fault (F_THROW) fires now (recorded decision)
bool fault_fires(Fault f);
/// how often faults of this kind have fired so far in this process (use differences only)
uint64_t faults_fired(Fault f);
/// stop all fault injection from now on (quiescent phases of a workload)
void faults_off();
void faults_on();
/// rwlock preference for this run: 0 reader-preferring, 1 writer-preferring
void set_rw_pref(int p);

// ------------------------------------------------ harness-level events
// These never create happens-before edges.
void ev_set(int id);
bool ev_isset(int id);
void ev_wait(int id);  ///< blocks (scheduling point) until set
void ctr_add(int id, int d);
int ctr_get(int id);
void ctr_wait_ge(int id, int n);
/// freeze: thread `tid` is parked at its k-th scheduling point from now on and
/// stays parked until thaw(tid).  While a thread is frozen, "every other thread
/// blocked" is violation class `blocked_on_frozen`.
void freeze_arm(int tid, int k);
void freeze_disarm(int tid);
bool is_frozen(int tid);
void thaw(int tid);
/// number of scheduling points the calling thread has passed
uint64_t my_steps();

// ----------------------------------------------------------------- oracles
/// oracle scope: memory accesses are not race-checked and atomics / sync calls
/// are executed directly while at least one scope is open on the thread.
struct Oracle {
    Oracle();
    ~Oracle();
};
void ignore_begin();
void ignore_end();
/// report a violation; never returns (dumps the replay file and exits)
[[noreturn]] void fail(const char* cls, const char* fmt, ...)
    __attribute__((format(printf, 2, 3)));
/// annotate the trace (replay mode only; no effect on scheduling)
void note(const char* fmt, ...) __attribute__((format(printf, 1, 2)));
/// named probe counters (reported in evidence)
void probe(const char* name);
/// mark run as non-trivial evidence-wise is automatic; this adds to the hash
void hash_mix(uint64_t v);

/// access-window monitor: W window overlapping any other window on the same
/// object is violation class `overlap`
void win_begin(const void* obj, bool write);
void win_end(const void* obj, bool write);
/// 1 if some R‖R overlap was seen on obj in this run
int win_rr_seen();

// per-thread lock bookkeeping (as seen at the pthread layer)
int held_exclusive();  ///< number of mutexes/rwlocks held exclusively by self
int held_shared();
uint64_t blocks_count();  ///< number of blocking transitions made by self
uint64_t yields_count();  ///< number of sched_yield calls made by self
/// longest remaining time (ns) at entry of any timed block entered by self
/// since the last reset; -1 if none
int64_t timed_block_max_ns();
int64_t timed_block_latest_deadline();
void timed_block_reset();
/// step at which self last re-acquired the mutex of a condition-variable wait (0: never)
uint64_t last_cond_reacquire_seq();
/// set: a *blocking* (non-try, non-timed) wait by self is a violation now
void forbid_blocking(bool on, const char* cls);
/// an untimed wait by self on this particular mutex / rwlock is a violation (nullptr: off)
void forbid_blocking_on(const void* obj, const char* cls);
/// the mutex / rwlock self acquired most recently (nullptr: none yet)
const void* last_lock_obj();

/// happens-before race detection on plain accesses (default off; C07/C19 on)
void check_races(bool on);

// heap
bool is_freed(const void* p);  ///< p points into a quarantined block
long live_blocks();  ///< blocks allocated in this run and not freed
long live_bytes();

/// thrown by harness code when F_THROW fires
struct injected {
    int site;
    int ordinal;
};

// -------------------------------------------------------------- workloads
struct Workload {
    const char* name;
    void (*run)();  ///< executed by simulated thread 0
    const char* const* opnames;  ///< op vocabulary (replay files, traces)
    int nops;
};
void register_workload(const Workload* w);

}  // namespace gsim

#define GSIM_WORKLOAD(NAME, FN, OPNAMES)                                      \
    static const gsim::Workload gsim_wl_##NAME = {                            \
        #NAME, FN, OPNAMES, (int)(sizeof(OPNAMES) / sizeof(OPNAMES[0]))};     \
    __attribute__((constructor)) static void gsim_reg_##NAME()                \
    {                                                                         \
        gsim::register_workload(&gsim_wl_##NAME);                             \
    }
