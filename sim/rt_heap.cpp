// gsim runtime: per-run bump arena behind operator new/delete with quarantine
// and poisoning, plus interposed mem* functions (range accesses).
#include "rt_internal.h"

#include <dlfcn.h>
#include <stdlib.h>
#include <string.h>
#include <sys/mman.h>
#include <unistd.h>
#include <new>

namespace gsim_rt {

constexpr size_t ARENA_SIZE = 64u << 20;
constexpr uint64_t BLK_MAGIC = 0x6773696d626c6b21ull;
static uint8_t* g_arena = nullptr;
static uint8_t* g_gran = nullptr;  // per 8-byte granule: 0 unknown, 1 live, 2 freed
static size_t g_bump = 0;
static size_t g_hw = 0;  // high-water mark of granule state to clear
static long g_live_blocks = 0;
static long g_live_bytes = 0;

struct BlkHdr {
    uint64_t magic;
    uint64_t size;
};

// freed block log (for reports): address, size, pc, freeing thread, step
struct FreeRec {
    uintptr_t a;
    size_t n;
    uintptr_t pc;
    int tid;
    uint64_t step;
};
static FreeRec g_freerec[4096];
static int g_nfreerec = 0;

static void arena_init()
{
    if (g_arena) return;
    g_arena = (uint8_t*)mmap((void*)0x200000000000ull, ARENA_SIZE, PROT_READ | PROT_WRITE,
                             MAP_PRIVATE | MAP_ANONYMOUS | MAP_NORESERVE, -1, 0);
    g_gran = (uint8_t*)mmap(nullptr, ARENA_SIZE / 8, PROT_READ | PROT_WRITE,
                            MAP_PRIVATE | MAP_ANONYMOUS | MAP_NORESERVE, -1, 0);
    if (g_arena == MAP_FAILED || g_gran == MAP_FAILED) {
        fprintf(stderr, "gsim: cannot map arena\n");
        _exit(2);
    }
}

bool heap_in_arena(uintptr_t a)
{
    return g_arena && a >= (uintptr_t)g_arena && a < (uintptr_t)g_arena + ARENA_SIZE;
}
uintptr_t heap_arena_base()
{
    return (uintptr_t)g_arena;
}
int heap_state(uintptr_t a)
{
    if (!heap_in_arena(a)) return 0;
    return g_gran[(a - (uintptr_t)g_arena) >> 3];
}
void heap_describe_free(uintptr_t a, char* buf, size_t n)
{
    for (int i = g_nfreerec - 1; i >= 0; i--) {
        if (a >= g_freerec[i].a && a < g_freerec[i].a + g_freerec[i].n) {
            char pcb[64];
            snprintf(buf, n, "block of %zu bytes freed by thread %d at step %llu (pc %s), offset %zu",
                     g_freerec[i].n, g_freerec[i].tid, (unsigned long long)g_freerec[i].step,
                     pc_describe(g_freerec[i].pc, pcb, sizeof pcb), (size_t)(a - g_freerec[i].a));
            return;
        }
    }
    snprintf(buf, n, "freed block");
}

void heap_run_begin()
{
    arena_init();
    g_bump = 0;
    g_live_blocks = 0;
    g_live_bytes = 0;
    g_nfreerec = 0;
}
void heap_run_reset()
{
    // called after a run has finished: forget everything
    if (g_hw) memset(g_gran, 0, (g_hw >> 3) + 1);
    g_hw = 0;
    g_bump = 0;
}

static void* arena_alloc(size_t n, size_t align)
{
    if (align < 16) align = 16;
    size_t start = (g_bump + sizeof(BlkHdr) + align - 1) & ~(align - 1);
    size_t sz = (n + 15) & ~(size_t)15;
    if (sz == 0) sz = 16;
    // one request for a quarter of the arena: no workload comes near that; it is what a container
    // whose size field was corrupted (by a race in the code under test) asks for.  A reproduced
    // violation of the memory-error family, not an infrastructure problem.
    if (n > ARENA_SIZE / 4) failf("wild_allocation", "a single allocation of %zu bytes was requested", n);
    if (start + sz + 16 > ARENA_SIZE) failf("harness", "arena exhausted");
    BlkHdr* h = (BlkHdr*)(g_arena + start - sizeof(BlkHdr));
    h->magic = BLK_MAGIC;
    h->size = n;
    // a 16-byte red zone after each block stays in state 0
    g_bump = start + sz + 16;
    if (g_bump > g_hw) g_hw = g_bump;
    memset(g_gran + (start >> 3), 1, sz >> 3);
    memset(g_arena + start, 0xCD, sz);
    g_live_blocks++;
    g_live_bytes += (long)n;
    mem_on_alloc((uintptr_t)(g_arena + start), sz);
    return g_arena + start;
}

static void* do_new(size_t n, size_t align, bool nothrow)
{
    Thread* t = tl_self;
    if (g_active && t && t->in_rt == 0 && t->guard_depth == 0) {
        // note: oracle scopes (ignore > 0) still allocate from the arena
        t->in_rt++;
        void* p = arena_alloc(n, align);
        t->in_rt--;
        return p;
    }
    void* p = nullptr;
    if (align > 16) {
        if (posix_memalign(&p, align, n ? n : 1)) p = nullptr;
    } else
        p = malloc(n ? n : 1);
    if (!p && !nothrow) {
        fprintf(stderr, "gsim: out of memory\n");
        _exit(2);
    }
    return p;
}

static void do_delete(void* p, uintptr_t pc)
{
    if (!p) return;
    uintptr_t a = (uintptr_t)p;
    if (!heap_in_arena(a)) {
        free(p);
        return;
    }
    Thread* t = tl_self;
    if (!g_active || !t) return;  // arena block released after the run: nothing to do
    t->in_rt++;
    size_t off = a - (uintptr_t)g_arena;
    BlkHdr* h = (BlkHdr*)(g_arena + off - sizeof(BlkHdr));
    int st = g_gran[off >> 3];
    if (st == 2) {
        char buf[256];
        heap_describe_free(a, buf, sizeof buf);
        failf("double_free", "thread %d deletes %p again: %s", t->id, p, buf);
    }
    if (st != 1 || h->magic != BLK_MAGIC)
        failf("bad_free", "thread %d deletes %p which is not the start of a live block", t->id, p);
    size_t n = h->size;
    size_t sz = (n + 15) & ~(size_t)15;
    if (sz == 0) sz = 16;
    mem_on_free(a, sz, pc);
    memset(g_gran + (off >> 3), 2, sz >> 3);
    memset(g_arena + off, 0xDE, sz);
    h->magic = 0;
    if (g_nfreerec < 4096)
        g_freerec[g_nfreerec++] = FreeRec{a, sz, pc, t->id, g_step};
    g_live_blocks--;
    g_live_bytes -= (long)n;
    t->in_rt--;
}

}  // namespace gsim_rt

using namespace gsim_rt;

namespace gsim {
bool is_freed(const void* p)
{
    return heap_state((uintptr_t)p) == 2;
}
long live_blocks()
{
    return g_live_blocks;
}
long live_bytes()
{
    return g_live_bytes;
}
}  // namespace gsim

#define RA ((uintptr_t)__builtin_return_address(0))

void* operator new(size_t n) { return do_new(n, 16, false); }
void* operator new[](size_t n) { return do_new(n, 16, false); }
void* operator new(size_t n, const std::nothrow_t&) noexcept { return do_new(n, 16, true); }
void* operator new[](size_t n, const std::nothrow_t&) noexcept { return do_new(n, 16, true); }
void* operator new(size_t n, std::align_val_t a) { return do_new(n, (size_t)a, false); }
void* operator new[](size_t n, std::align_val_t a) { return do_new(n, (size_t)a, false); }
void* operator new(size_t n, std::align_val_t a, const std::nothrow_t&) noexcept
{
    return do_new(n, (size_t)a, true);
}
void* operator new[](size_t n, std::align_val_t a, const std::nothrow_t&) noexcept
{
    return do_new(n, (size_t)a, true);
}
void operator delete(void* p) noexcept { do_delete(p, RA); }
void operator delete[](void* p) noexcept { do_delete(p, RA); }
void operator delete(void* p, size_t) noexcept { do_delete(p, RA); }
void operator delete[](void* p, size_t) noexcept { do_delete(p, RA); }
void operator delete(void* p, const std::nothrow_t&) noexcept { do_delete(p, RA); }
void operator delete[](void* p, const std::nothrow_t&) noexcept { do_delete(p, RA); }
void operator delete(void* p, std::align_val_t) noexcept { do_delete(p, RA); }
void operator delete[](void* p, std::align_val_t) noexcept { do_delete(p, RA); }
void operator delete(void* p, size_t, std::align_val_t) noexcept { do_delete(p, RA); }
void operator delete[](void* p, size_t, std::align_val_t) noexcept { do_delete(p, RA); }

// ------------------------------------------------------------------ mem*
// Called by instrumented code for memory intrinsics (clang 14 TSan lowers
// them to plain libc names) and by libstdc++.so through the PLT.
static inline void raw_copy_fwd(void* d, const void* s, size_t n)
{
    asm volatile("rep movsb" : "+D"(d), "+S"(s), "+c"(n) : : "memory");
}
static inline void raw_copy_bwd(void* d, const void* s, size_t n)
{
    uint8_t* dd = (uint8_t*)d + n - 1;
    const uint8_t* ss = (const uint8_t*)s + n - 1;
    asm volatile("std; rep movsb; cld" : "+D"(dd), "+S"(ss), "+c"(n) : : "memory");
}
static inline void raw_set(void* d, int c, size_t n)
{
    asm volatile("rep stosb" : "+D"(d), "+c"(n) : "a"(c) : "memory");
}

extern "C" {
void* memcpy(void* d, const void* s, size_t n)
{
    if (n && sim_thread_active()) {
        Thread* t = tl_self;
        t->in_rt++;
        mem_range((uintptr_t)s, n, false, RA);
        mem_range((uintptr_t)d, n, true, RA);
        t->in_rt--;
    }
    void* r = d;
    raw_copy_fwd(d, s, n);
    return r;
}
void* memmove(void* d, const void* s, size_t n)
{
    if (n && sim_thread_active()) {
        Thread* t = tl_self;
        t->in_rt++;
        mem_range((uintptr_t)s, n, false, RA);
        mem_range((uintptr_t)d, n, true, RA);
        t->in_rt--;
    }
    if ((uintptr_t)d <= (uintptr_t)s || (uintptr_t)d >= (uintptr_t)s + n)
        raw_copy_fwd(d, s, n);
    else
        raw_copy_bwd(d, s, n);
    return d;
}
void* memset(void* d, int c, size_t n)
{
    if (n && sim_thread_active()) {
        Thread* t = tl_self;
        t->in_rt++;
        mem_range((uintptr_t)d, n, true, RA);
        t->in_rt--;
    }
    raw_set(d, c, n);
    return d;
}
int memcmp(const void* a, const void* b, size_t n)
{
    if (n && sim_thread_active()) {
        Thread* t = tl_self;
        t->in_rt++;
        mem_range((uintptr_t)a, n, false, RA);
        mem_range((uintptr_t)b, n, false, RA);
        t->in_rt--;
    }
    const uint8_t* x = (const uint8_t*)a;
    const uint8_t* y = (const uint8_t*)b;
    for (size_t i = 0; i < n; i++)
        if (x[i] != y[i]) return x[i] < y[i] ? -1 : 1;
    return 0;
}
}
