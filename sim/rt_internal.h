// gsim runtime internals shared between rt.cpp (scheduler, sync shims, heap)
// and rt_mem.cpp (atomics model, race detector).  STL-free on purpose: the
// runtime must not share template instantiations with instrumented code.
#pragma once
#include "gsim.h"

#include <pthread.h>
#include <stdint.h>
#include <stdio.h>

namespace gsim_rt {

constexpr int MAXT = gsim::MAX_THREADS;

struct VC {
    uint32_t c[MAXT];
};
inline void vc_join(VC& a, const VC& b)
{
    for (int i = 0; i < MAXT; i++)
        if (b.c[i] > a.c[i]) a.c[i] = b.c[i];
}
inline bool vc_zero(const VC& a)
{
    for (int i = 0; i < MAXT; i++)
        if (a.c[i]) return false;
    return true;
}

enum TState { T_FREE = 0, T_RUNNABLE, T_BLOCKED, T_FINISHED };
enum BlockKind {
    B_NONE = 0,
    B_MUTEX,
    B_RW_R,
    B_RW_W,
    B_COND,
    B_ONCE,
    B_GUARD,
    B_FUTEX,
    B_JOIN,
    B_SLEEP,
    B_EVENT,
    B_CTR,
};

// decision kinds (keys of overrides)
enum DKind {
    D_SCHED = 0,
    D_READ,
    D_SIGNAL,
    D_CHOOSE,
    D_SPURIOUS_WAKE,
    D_TIME_JUMP,
    D_SPURIOUS_TRYLOCK,
    D_THROW,
    D_PLAIN,  // preemption at a plain (non-atomic) access to heap memory
    D_ALLOC_FAIL,  // a user-supplied allocator's allocate() throws std::bad_alloc
    D_NKINDS
};

// event kinds (trace / hash)
enum EKind {
    E_START = 0,
    E_EXIT,
    E_YIELD,
    E_MLOCK,
    E_MTRY,
    E_MTIMED,
    E_MUNLOCK,
    E_RDLOCK,
    E_WRLOCK,
    E_TRYRD,
    E_TRYWR,
    E_TIMEDRD,
    E_TIMEDWR,
    E_RWUNLOCK,
    E_CWAIT,
    E_CTIMED,
    E_CSIGNAL,
    E_CBCAST,
    E_ONCE,
    E_GUARD_ACQ,
    E_GUARD_REL,
    E_FUTEX_WAIT,
    E_FUTEX_WAKE,
    E_ALOAD,
    E_ASTORE,
    E_ARMW,
    E_ACAS,
    E_FENCE,
    E_SLEEP,
    E_SPAWN,
    E_JOIN,
    E_EVSET,
    E_EVWAIT,
    E_CTR,
    E_CHOOSE,
    E_PLAIN,
    E_NKINDS
};

struct Thread {
    int id;
    pthread_t pt;
    volatile int wake;  // futex word
    int st;
    int bk;
    const void* bobj;
    int64_t bval;  // futex expected value / ctr threshold / join target
    int64_t deadline;  // -1: none
    bool timed_out;
    bool signaled;
    bool yielded;
    bool frozen;
    bool joined;
    long freeze_countdown;  // <0: not armed
    VC vc;
    VC fence_rel;  // clock at last release fence
    VC acq_pending;  // clocks of relaxed loads waiting for an acquire fence
    bool sc_fenced;
    gsim::thread_fn fn;
    void* arg;
    int held_excl, held_shared;
    uint64_t n_block, n_yield, n_steps;
    int64_t tb_max_ns, tb_latest_deadline;
    uint64_t cond_reacquire_step;
    bool forbid_block;
    const void* forbid_obj;
    const void* last_lock;
    const char* forbid_cls;
    uint32_t dec_count[D_NKINDS];
    int prio;
    int guard_depth;
    int ignore;  // oracle scope depth
    int in_rt;
};

extern volatile int g_active;  // a simulated run is in progress
extern __thread Thread* tl_self;
extern uint64_t g_step;
extern int64_t g_clock_ns;
extern FILE* g_trace;

inline bool sim_thread_active()
{
    return g_active && tl_self != nullptr && tl_self->ignore == 0 &&
        tl_self->in_rt == 0;
}

struct RtScope {
    Thread* t;
    explicit RtScope(Thread* th): t(th) { t->in_rt++; }
    ~RtScope() { t->in_rt--; }
};

// scheduler interface used by rt_mem.cpp
void sched_point(int ekind, const void* obj);
void event_result(uint64_t v);
int decide(int dkind, int n, int dflt);
bool fault_decide(int dkind);  // recorded fault decision for current thread
bool fault_enabled(int dkind);
void plain_access_point(const void* addr);  // maybe pre-empt at a plain heap access
uint64_t rnd_sched();
int obj_ordinal(const void* p);
[[noreturn]] void vfail(const char* cls, const char* fmt, va_list ap);
[[noreturn]] void failf(const char* cls, const char* fmt, ...)
    __attribute__((format(printf, 2, 3)));
void tracef(const char* fmt, ...) __attribute__((format(printf, 1, 2)));
const char* pc_describe(uintptr_t pc, char* buf, size_t n);

// heap interface
bool heap_in_arena(uintptr_t a);
uintptr_t heap_arena_base();
// returns 0 unknown, 1 live, 2 freed
int heap_state(uintptr_t a);
void heap_describe_free(uintptr_t a, char* buf, size_t n);

// rt_mem.cpp
void mem_run_reset();
void mem_on_alloc(uintptr_t a, size_t n);
void mem_on_free(uintptr_t a, size_t n, uintptr_t pc);
void mem_access(uintptr_t a, size_t n, bool write, bool atomic, uintptr_t pc);
void mem_range(uintptr_t a, size_t n, bool write, uintptr_t pc);
// model-level atomic store used by guard release
void atomic_model_store8_release(void* addr, uint8_t v);
extern bool g_check_races;
extern uint64_t g_stat_stale_reads;
extern uint64_t g_stat_races_checked;

}  // namespace gsim_rt
