// gsim runtime core: threads, baton, scheduler, decisions, harness API.
#include "rt_internal.h"
#include "rt_ctl.h"
#include "rt_sync.h"

#include <dlfcn.h>
#include <errno.h>
#include <linux/futex.h>
#include <signal.h>
#include <stdarg.h>
#include <stdlib.h>
#include <string.h>
#include <sys/syscall.h>
#include <time.h>
#include <unistd.h>
#include <exception>

namespace gsim_rt {

volatile int g_active = 0;
__thread Thread* tl_self = nullptr;
uint64_t g_step = 0;
int64_t g_clock_ns = 0;
FILE* g_trace = nullptr;

static Thread g_thr[MAXT];
static int g_nthreads = 0;  // threads used in this run
static int g_pool = 0;  // pool threads created
static volatile int g_done = 0;  // controller futex: run finished
static Thread* g_cur = nullptr;

// ---------------------------------------------------------------- PRNG
struct Rng {
    uint64_t s;
    uint64_t next()
    {
        uint64_t z = (s += 0x9E3779B97F4A7C15ull);
        z = (z ^ (z >> 30)) * 0xBF58476D1CE4E5B9ull;
        z = (z ^ (z >> 27)) * 0x94D049BB133111EBull;
        return z ^ (z >> 31);
    }
    uint32_t below(uint32_t n) { return n ? (uint32_t)((next() >> 16) % n) : 0; }
};
static Rng g_rng_prog, g_rng_knob, g_rng_sched;
uint64_t rnd_sched() { return g_rng_sched.next(); }

// ---------------------------------------------------------------- config
static bool g_replay = false;
static const char* g_property = "";
static bool g_thorough = false;
static char g_fail_out[512] = "";
static uint64_t g_meta_seed = 0, g_meta_run = 0, g_run_seed = 0;
static long g_s_fault = 4000, g_s_max = 40000;
static const gsim::Workload* g_wl = nullptr;

struct Param {
    char k[48];
    char v[96];
};
static Param g_params[32];
static int g_nparams = 0;

struct Knob {
    char name[32];
    int v;
};
static Knob g_knobs[48];
static int g_nknobs = 0;

// program
static gsim::Op g_prog[MAXT][gsim::MAX_OPS];
static int g_prog_len[MAXT];
static int g_prog_nthr = 0;
static bool g_prog_loaded = false;
static const char* const* g_opnames = nullptr;
static int g_nopnames = 0;

// overrides
struct Override {
    uint8_t tid, kind;
    uint32_t k;
    int32_t val;
};
constexpr int MAX_OV = 1 << 20;  // (lr.many records ~150 000 decisions per run)
static Override g_ov[MAX_OV];
static int g_nov = 0;
static bool g_ov_overflow = false;
constexpr int OVH = 1 << 21;
static int32_t g_ovh[OVH];  // replay lookup: index+1

static inline uint32_t ov_hash(int tid, int kind, uint32_t k)
{
    uint64_t x = ((uint64_t)tid << 40) ^ ((uint64_t)kind << 32) ^ k;
    x *= 0x9E3779B97F4A7C15ull;
    return (uint32_t)(x >> 40) & (OVH - 1);
}
static void ov_index_build()
{
    memset(g_ovh, 0, sizeof g_ovh);
    for (int i = 0; i < g_nov; i++) {
        uint32_t h = ov_hash(g_ov[i].tid, g_ov[i].kind, g_ov[i].k);
        while (g_ovh[h]) h = (h + 1) & (OVH - 1);
        g_ovh[h] = i + 1;
    }
}
static const Override* ov_find(int tid, int kind, uint32_t k)
{
    uint32_t h = ov_hash(tid, kind, k);
    while (g_ovh[h]) {
        const Override& o = g_ov[g_ovh[h] - 1];
        if (o.tid == tid && o.kind == kind && o.k == k) return &o;
        h = (h + 1) & (OVH - 1);
    }
    return nullptr;
}
static void ov_record(int tid, int kind, uint32_t k, int val)
{
    if (g_nov >= MAX_OV) {
        g_ov_overflow = true;
        return;
    }
    g_ov[g_nov++] = Override{(uint8_t)tid, (uint8_t)kind, k, val};
}

// faults
static int g_fault_rate[D_NKINDS];  // permille, 0 = disabled
static bool g_faults_on = true;
static uint64_t g_fault_fired[D_NKINDS];
int g_rw_pref = 0;

// strategy
enum { S_WALK = 0, S_PCT, S_FEW, S_STALL, S_RR };
static int g_strategy = S_WALK;
static int g_stay_permille = 500;
static uint64_t g_change_pts[8];
static int g_nchange = 0;
static int g_stall_victim = -1;
static uint64_t g_stall_from = 0, g_stall_to = 0;
static int g_prio_floor = 0;
static int g_force_next = -1;  // thaw(): the released thread runs next (canonical default)

// stats
static gsim_ctl::RunStats g_stats;
static uint64_t g_hash = 0;
struct Probe {
    const char* name;
    uint64_t v;
};
static Probe g_probes[gsim_ctl::MAX_PROBES];
static int g_nprobes = 0;

// events / counters / windows
static bool g_ev[64];
static int g_ctr[64];
struct Win {
    const void* obj;
    int tid;
    bool write;
};
static Win g_win[64];
static int g_nwin = 0;
static int g_win_rr = 0;

// object ordinals
constexpr int ORDH = 1 << 13;
static const void* g_ord_key[ORDH];
static int g_ord_val[ORDH];
static int g_ord_next = 1;
int obj_ordinal(const void* p)
{
    if (!p) return 0;
    uint32_t h = (uint32_t)(((uintptr_t)p * 0x9E3779B97F4A7C15ull) >> 40) & (ORDH - 1);
    for (int probe = 0; probe < ORDH; probe++) {
        if (g_ord_key[h] == p) return g_ord_val[h];
        if (!g_ord_key[h]) {
            g_ord_key[h] = p;
            g_ord_val[h] = g_ord_next++;
            return g_ord_val[h];
        }
        h = (h + 1) & (ORDH - 1);
    }
    return -1;
}

static inline void hmix(uint64_t v)
{
    g_hash ^= v + 0x9E3779B97F4A7C15ull + (g_hash << 6) + (g_hash >> 2);
    g_hash *= 0x100000001B3ull;
}

static const char* const EK_NAMES[E_NKINDS] = {
    "start", "exit", "yield", "mutex.lock", "mutex.trylock", "mutex.timedlock",
    "mutex.unlock", "rw.rdlock", "rw.wrlock", "rw.tryrd", "rw.trywr", "rw.timedrd",
    "rw.timedwr", "rw.unlock", "cv.wait", "cv.timedwait", "cv.signal", "cv.broadcast",
    "once", "guard.acquire", "guard.release", "futex.wait", "futex.wake", "a.load",
    "a.store", "a.rmw", "a.cas", "fence", "sleep", "spawn", "join", "ev.set",
    "ev.wait", "ctr", "choose", "plain"};
static const char* const DK_NAMES[D_NKINDS] = {"sched", "read", "signal", "choose",
                                              "spurious_wakeup", "time_jump",
                                              "spurious_trylock", "throw", "plain_preempt",
                                              "alloc_fail"};
static const char* const ST_NAMES[gsim_ctl::N_STRATEGIES] = {"walk", "pct", "few",
                                                             "stall", "rr"};

// ---------------------------------------------------------------- baton
static inline void futex_wait(volatile int* a, int v)
{
    syscall(SYS_futex, a, FUTEX_WAIT_PRIVATE, v, nullptr, nullptr, 0);
}
static inline void futex_wake(volatile int* a)
{
    syscall(SYS_futex, a, FUTEX_WAKE_PRIVATE, 1, nullptr, nullptr, 0);
}
static void park(Thread* t)
{
    while (!__atomic_load_n(&t->wake, __ATOMIC_ACQUIRE)) futex_wait(&t->wake, 0);
    __atomic_store_n(&t->wake, 0, __ATOMIC_RELAXED);
}
static void unpark(Thread* t)
{
    __atomic_store_n(&t->wake, 1, __ATOMIC_RELEASE);
    futex_wake(&t->wake);
}

// ------------------------------------------------------------- tracing
void tracef(const char* fmt, ...)
{
    if (!g_trace) return;
    va_list ap;
    va_start(ap, fmt);
    vfprintf(g_trace, fmt, ap);
    va_end(ap);
}

const char* pc_describe(uintptr_t pc, char* buf, size_t n)
{
    Dl_info di;
    if (pc && dladdr((void*)pc, &di) && di.dli_fbase) {
        snprintf(buf, n, "+0x%lx", (unsigned long)(pc - (uintptr_t)di.dli_fbase));
    } else {
        snprintf(buf, n, "0x%lx", (unsigned long)pc);
    }
    return buf;
}

// ------------------------------------------------------------- failure
static void json_str(FILE* f, const char* s)
{
    fputc('"', f);
    for (; *s; s++) {
        unsigned char c = (unsigned char)*s;
        if (c == '"' || c == '\\') {
            fputc('\\', f);
            fputc(c, f);
        } else if (c < 0x20) {
            fprintf(f, "\\u%04x", c);
        } else
            fputc(c, f);
    }
    fputc('"', f);
}

static void dump_json(FILE* f, const char* cls, const char* msg, int max_ov)
{
    fprintf(f, "{\"gsim\":1,\"workload\":");
    json_str(f, g_wl ? g_wl->name : "");
    fprintf(f, ",\"property\":");
    json_str(f, g_property);
    fprintf(f, ",\"class\":");
    json_str(f, cls);
    fprintf(f, ",\"message\":");
    json_str(f, msg);
    fprintf(f, ",\"verif_seed\":%llu,\"run_index\":%llu,\"run_seed\":%llu",
            (unsigned long long)g_meta_seed, (unsigned long long)g_meta_run,
            (unsigned long long)g_run_seed);
    fprintf(f, ",\"steps\":%llu,\"event_hash\":\"%016llx\"", (unsigned long long)g_step,
            (unsigned long long)g_hash);
    fprintf(f, ",\"strategy\":\"%s\"", g_replay ? "replay" : ST_NAMES[g_strategy]);
    fprintf(f, ",\"params\":{");
    for (int i = 0; i < g_nparams; i++) {
        if (i) fputc(',', f);
        json_str(f, g_params[i].k);
        fputc(':', f);
        json_str(f, g_params[i].v);
    }
    fprintf(f, "},\"knobs\":{");
    for (int i = 0; i < g_nknobs; i++) {
        if (i) fputc(',', f);
        json_str(f, g_knobs[i].name);
        fprintf(f, ":%d", g_knobs[i].v);
    }
    fprintf(f, "},\"program\":[");
    for (int t = 0; t < g_prog_nthr; t++) {
        if (t) fputc(',', f);
        fputc('[', f);
        for (int i = 0; i < g_prog_len[t]; i++) {
            const gsim::Op& o = g_prog[t][i];
            if (i) fputc(',', f);
            fputc('[', f);
            if (g_opnames && o.code >= 0 && o.code < g_nopnames)
                json_str(f, g_opnames[o.code]);
            else
                fprintf(f, "%d", o.code);
            fprintf(f, ",%d,%d,%d]", o.a, o.b, o.c);
        }
        fputc(']', f);
    }
    fprintf(f, "],\"overrides\":[");
    int n = g_nov;
    if (max_ov >= 0 && n > max_ov) n = max_ov;
    for (int i = 0; i < n; i++) {
        if (i) fputc(',', f);
        fprintf(f, "[%d,\"%s\",%u,%d]", g_ov[i].tid, DK_NAMES[g_ov[i].kind], g_ov[i].k,
                g_ov[i].val);
    }
    fprintf(f, "],\"overrides_total\":%d,\"overrides_truncated\":%s}\n", g_nov,
            g_ov_overflow ? "true" : "false");
}

static volatile int g_failing = 0;

[[noreturn]] void vfail(const char* cls, const char* fmt, va_list ap)
{
    if (tl_self) tl_self->in_rt++;
    if (__atomic_exchange_n(&g_failing, 1, __ATOMIC_SEQ_CST)) {
        // a second failure while reporting the first: just stop
        for (;;) pause();
    }
    char msg[1024];
    vsnprintf(msg, sizeof msg, fmt, ap);
    tracef("!! VIOLATION class=%s: %s\n", cls, msg);
    if (g_trace) fflush(g_trace);
    if (g_fail_out[0]) {
        FILE* f = fopen(g_fail_out, "w");
        if (f) {
            dump_json(f, cls, msg, -1);
            fclose(f);
        }
    }
    printf("FAIL class=%s hash=%016llx steps=%llu run=%llu out=%s msg=%s\n", cls,
           (unsigned long long)g_hash, (unsigned long long)g_step,
           (unsigned long long)g_meta_run, g_fail_out, msg);
    fflush(stdout);
    _exit(3);
}
[[noreturn]] void failf(const char* cls, const char* fmt, ...)
{
    va_list ap;
    va_start(ap, fmt);
    vfail(cls, fmt, ap);
}

static void crash_handler(int sig, siginfo_t* si, void*)
{
    if (g_active && tl_self) {
        failf("crash", "signal %d (%s) at address %p in thread %d", sig,
              sig == SIGSEGV     ? "SIGSEGV" :
                  sig == SIGBUS  ? "SIGBUS" :
                  sig == SIGABRT ? "SIGABRT" :
                  sig == SIGFPE  ? "SIGFPE" :
                                   "SIGILL",
              si ? si->si_addr : nullptr, tl_self->id);
    }
    fprintf(stderr, "gsim: fatal signal %d outside a simulated run\n", sig);
    _exit(2);
}
static void terminate_handler()
{
    if (g_active && tl_self) {
        const char* what = "unknown";
        try {
            std::exception_ptr ep = std::current_exception();
            if (ep) std::rethrow_exception(ep);
            what = "no active exception";
        }
        catch (const std::exception& e) {
            what = e.what();
        }
        catch (const gsim::injected&) {
            what = "gsim::injected";
        }
        catch (...) {
        }
        failf("crash", "std::terminate called in thread %d (%s)", tl_self->id, what);
    }
    fprintf(stderr, "gsim: std::terminate outside a simulated run\n");
    _exit(2);
}

// ------------------------------------------------------------- decisions
bool fault_enabled(int dkind)
{
    return g_faults_on && g_fault_rate[dkind] > 0 && (long)g_step < g_s_fault;
}

int decide(int dkind, int n, int dflt)
{
    Thread* t = tl_self;
    uint32_t k = t->dec_count[dkind]++;
    int v = dflt;
    if (g_replay) {
        if (const Override* o = ov_find(t->id, dkind, k)) {
            if (o->val >= 0 && o->val < n) v = o->val;
        }
    } else {
        // search mode: the caller supplies the randomised value through
        // decide_random(); this path is only used for deterministic kinds
    }
    return v;
}

// search-mode helper: record a decision value chosen by the strategy
static int decide_with(int dkind, int n, int dflt, int chosen)
{
    Thread* t = tl_self;
    uint32_t k = t->dec_count[dkind]++;
    if (g_replay) {
        int v = dflt;
        if (const Override* o = ov_find(t->id, dkind, k)) {
            if (o->val >= 0 && o->val < n) v = o->val;
        }
        return v;
    }
    if (chosen != dflt) ov_record(t->id, dkind, k, chosen);
    return chosen;
}

bool fault_decide(int dkind)
{
    // a fault decision is only a decision point when the kind is enabled in
    // search mode; in replay mode every potential site is a decision point
    // (the counter must advance identically in both modes)
    int chosen = 0;
    if (!g_replay && fault_enabled(dkind)) {
        chosen = (int)(g_rng_sched.below(1000) < (uint32_t)g_fault_rate[dkind]);
    }
    int v = decide_with(dkind, 2, 0, chosen);
    if (v) g_fault_fired[dkind]++;
    return v != 0;
}

// Pre-emption inside plain code: without it the code between two synchronisation /
// atomic operations would always run atomically.  Enabled per run (knob
// "plain_preempt": 0 off, 1 sparse, 2 dense); every plain access to arena memory by
// a simulated thread is then a decision point.
static int g_plain_mode = 0;
static bool g_plain_armed = false;  // only once the run is multi-threaded (after the generator)
void plain_access_point(const void* addr)
{
    if (!g_plain_mode || !g_plain_armed) return;
    Thread* t = tl_self;
    if ((long)g_step >= g_s_fault || !g_faults_on) return;
    int chosen = 0;
    if (!g_replay)
        chosen = g_rng_sched.below(1000) < (uint32_t)(g_plain_mode == 1 ? 15 : 80) ? 1 : 0;
    t->in_rt++;
    int v = decide_with(D_PLAIN, 2, 0, chosen);
    if (v) {
        g_fault_fired[D_PLAIN]++;
        sched_point(E_PLAIN, addr);
    }
    t->in_rt--;
}

// decision with uniformly random non-default alternative (search mode)
int decide_uniform(int dkind, int n, int dflt, int permille_nondefault)
{
    int chosen = dflt;
    if (!g_replay && n > 1 && g_faults_on && (long)g_step < g_s_fault &&
        g_rng_sched.below(1000) < (uint32_t)permille_nondefault) {
        chosen = (int)g_rng_sched.below((uint32_t)n);
    }
    int v = decide_with(dkind, n, dflt, chosen);
    if (v != dflt) g_fault_fired[dkind]++;
    return v;
}

// ------------------------------------------------------------- scheduler
bool thread_enabled(Thread* t);  // rt_sync.cpp supplies the wake predicates

static uint32_t enabled_mask()
{
    uint32_t m = 0;
    for (int i = 0; i < g_nthreads; i++) {
        Thread* t = &g_thr[i];
        if (t->frozen) continue;
        if (t->st == T_RUNNABLE)
            m |= 1u << i;
        else if (t->st == T_BLOCKED) {
            if (thread_enabled(t) || (t->deadline >= 0 && g_clock_ns >= t->deadline))
                m |= 1u << i;
        }
    }
    return m;
}
static int64_t min_deadline()
{
    int64_t d = -1;
    for (int i = 0; i < g_nthreads; i++) {
        Thread* t = &g_thr[i];
        if (t->st == T_BLOCKED && !t->frozen && t->deadline >= 0 &&
            (d < 0 || t->deadline < d))
            d = t->deadline;
    }
    return d;
}
static int lowest(uint32_t m)
{
    return m ? __builtin_ctz(m) : -1;
}
static int nth_set(uint32_t m, int n)
{
    for (int i = 0; i < MAXT; i++)
        if (m & (1u << i)) {
            if (n-- == 0) return i;
        }
    return -1;
}

static void describe_deadlock(char* buf, size_t n)
{
    size_t o = 0;
    for (int i = 0; i < g_nthreads && o + 80 < n; i++) {
        Thread* t = &g_thr[i];
        static const char* bkn[] = {"-", "mutex", "rwlock(rd)", "rwlock(wr)", "condvar",
                                    "once", "guard", "futex", "join", "sleep", "event",
                                    "counter"};
        if (t->st == T_BLOCKED)
            o += snprintf(buf + o, n - o, "T%d:%s#%d%s ", i, bkn[t->bk],
                          obj_ordinal(t->bobj), t->frozen ? "(frozen)" : "");
        else if (t->st == T_FINISHED)
            o += snprintf(buf + o, n - o, "T%d:done ", i);
        else if (t->frozen)
            o += snprintf(buf + o, n - o, "T%d:frozen ", i);
        else
            o += snprintf(buf + o, n - o, "T%d:runnable ", i);
    }
}

/// pick the next thread to run; `self` may or may not be runnable.
static int choose_next(Thread* self)
{
    uint32_t E = enabled_mask();
    // time jump fault: a pending time-out fires although threads are runnable
    if (E) {
        int64_t d = min_deadline();
        if (d > g_clock_ns && fault_enabled(D_TIME_JUMP)) {
            if (fault_decide(D_TIME_JUMP)) {
                g_clock_ns = d;
                E = enabled_mask();
                tracef("        [time jump to %lld ns]\n", (long long)g_clock_ns);
            }
        }
    }
    while (!E) {
        int64_t d = min_deadline();
        if (d < 0) {
            char buf[512];
            describe_deadlock(buf, sizeof buf);
            bool anyfrozen = false;
            for (int i = 0; i < g_nthreads; i++)
                if (g_thr[i].frozen) anyfrozen = true;
            if (anyfrozen)
                failf("blocked_on_frozen",
                      "every thread that is not frozen is blocked: %s", buf);
            failf("deadlock", "no thread can make progress: %s", buf);
        }
        if (d > g_clock_ns) g_clock_ns = d;
        E = enabled_mask();
    }
    uint32_t C = E;
    for (int i = 0; i < g_nthreads; i++)
        if (g_thr[i].yielded) C &= ~(1u << i);
    if (!C) C = E;
    bool self_ok = (C >> self->id) & 1;
    int dflt;
    bool fair = (long)g_step >= g_s_fault;
    int forced = -1;
    if (g_force_next >= 0) {
        if ((E >> g_force_next) & 1) forced = g_force_next;
        g_force_next = -1;
    }
    if (fair) {
        // round robin among enabled threads
        dflt = -1;
        for (int d = 1; d <= MAXT; d++) {
            int i = (self->id + d) % MAXT;
            if ((C >> i) & 1) {
                dflt = i;
                break;
            }
        }
    } else {
        dflt = self_ok ? self->id : lowest(C);
    }
    if (forced >= 0) dflt = forced;
    int chosen = dflt;
    if (!g_replay && !fair && forced < 0) {
        int nC = __builtin_popcount(C);
        switch (g_strategy) {
            case S_WALK:
                if (self_ok && g_rng_sched.below(1000) < (uint32_t)g_stay_permille)
                    chosen = self->id;
                else
                    chosen = nth_set(C, (int)g_rng_sched.below(nC));
                break;
            case S_PCT: {
                for (int c = 0; c < g_nchange; c++)
                    if (g_change_pts[c] == g_step) self->prio = --g_prio_floor;
                int best = -1;
                for (int i = 0; i < g_nthreads; i++)
                    if (((C >> i) & 1) && (best < 0 || g_thr[i].prio > g_thr[best].prio))
                        best = i;
                chosen = best;
                break;
            }
            case S_FEW: {
                bool cp = false;
                for (int c = 0; c < g_nchange; c++)
                    if (g_change_pts[c] == g_step) cp = true;
                if (self_ok && !cp)
                    chosen = self->id;
                else {
                    uint32_t O = C & ~(1u << self->id);
                    if (!O) O = C;
                    chosen = nth_set(O, (int)g_rng_sched.below(__builtin_popcount(O)));
                }
                break;
            }
            case S_STALL: {
                uint32_t O = C;
                if (g_step >= g_stall_from && g_step < g_stall_to && g_stall_victim >= 0)
                    O &= ~(1u << g_stall_victim);
                if (!O) O = C;
                if (((O >> self->id) & 1) &&
                    g_rng_sched.below(1000) < (uint32_t)g_stay_permille)
                    chosen = self->id;
                else
                    chosen = nth_set(O, (int)g_rng_sched.below(__builtin_popcount(O)));
                break;
            }
            default: break;
        }
    }
    // record / replay
    uint32_t k = self->dec_count[D_SCHED]++;
    if (g_replay) {
        chosen = dflt;
        if (!fair) {
            if (const Override* o = ov_find(self->id, D_SCHED, k)) {
                if (o->val >= 0 && o->val < MAXT && ((E >> o->val) & 1)) chosen = o->val;
            }
        }
    } else if (chosen != dflt) {
        ov_record(self->id, D_SCHED, k, chosen);
    }
    return chosen;
}

static void switch_to(Thread* self, int next, bool self_runnable)
{
    if (next == self->id) return;
    g_stats.switches++;
    if (self_runnable) g_stats.preemptions++;
    Thread* n = &g_thr[next];
    g_cur = n;
    unpark(n);
    park(self);
}

static void step_common(Thread* t)
{
    g_step++;
    t->n_steps++;
    g_clock_ns += 1000;
    for (int i = 0; i < g_nthreads; i++)
        if (i != t->id) g_thr[i].yielded = false;
    if ((long)g_step > g_s_max) {
        bool anyfrozen = false;
        for (int i = 0; i < g_nthreads; i++)
            if (g_thr[i].frozen) anyfrozen = true;
        char buf[512];
        describe_deadlock(buf, sizeof buf);
        failf(anyfrozen ? "spins_on_frozen" : "no_progress",
              "run did not finish within %ld steps (fair scheduling since step %ld): %s",
              g_s_max, g_s_fault, buf);
    }
}

/// A visible operation is about to be executed by the calling thread.
void sched_point(int ekind, const void* obj)
{
    Thread* t = tl_self;
    step_common(t);
    if (t->freeze_countdown >= 0) {
        if (t->freeze_countdown == 0) {
            t->frozen = true;
            t->freeze_countdown = -1;
            tracef("        [T%d frozen]\n", t->id);
        } else
            t->freeze_countdown--;
    }
    int next = choose_next(t);
    switch_to(t, next, true);
    // now running
    hmix(((uint64_t)t->id << 56) ^ ((uint64_t)ekind << 48) ^ (uint64_t)obj_ordinal(obj));
    if (g_trace)
        tracef("%6llu T%d %-14s #%d\n", (unsigned long long)g_step, t->id, EK_NAMES[ekind],
               obj_ordinal(obj));
}
void event_result(uint64_t v)
{
    hmix(v ^ 0xABCDEF);
    if (g_trace) tracef("        -> %lld\n", (long long)v);
}

/// The calling thread cannot proceed (state already set to T_BLOCKED with its
/// wake predicate).  Returns when it has been chosen to run again.
void block_here()
{
    Thread* t = tl_self;
    t->n_block++;
    if (g_trace)
        tracef("        T%d blocks (kind %d on #%d%s)\n", t->id, t->bk, obj_ordinal(t->bobj),
               t->deadline >= 0 ? ", timed" : "");
    for (int i = 0; i < g_nthreads; i++)
        if (i != t->id) g_thr[i].yielded = false;
    int next = choose_next(t);
    if (next != t->id) switch_to(t, next, false);
    // chosen: either the predicate holds or the deadline passed
    t->timed_out = !(thread_enabled(t)) && t->deadline >= 0 && g_clock_ns >= t->deadline;
    t->st = T_RUNNABLE;
    t->bk = B_NONE;
    t->deadline = -1;
    if (g_trace) tracef("        T%d resumes%s\n", t->id, t->timed_out ? " (timed out)" : "");
}

static void thread_finish(Thread* t)
{
    // release clock for joiners is t->vc itself
    t->st = T_FINISHED;
    bool any = false;
    for (int i = 0; i < g_nthreads; i++)
        if (g_thr[i].st == T_RUNNABLE || g_thr[i].st == T_BLOCKED) any = true;
    if (!any) return;  // only thread 0 can be last; handled by caller
    for (int i = 0; i < g_nthreads; i++)
        if (i != t->id) g_thr[i].yielded = false;
    int next = choose_next(t);
    g_stats.switches++;
    g_cur = &g_thr[next];
    unpark(&g_thr[next]);
}

static volatile int g_pool_exit = 0;

static void* pool_main(void* arg)
{
    Thread* t = (Thread*)arg;
    tl_self = t;
    for (;;) {
        park(t);
        if (__atomic_load_n(&g_pool_exit, __ATOMIC_ACQUIRE)) return nullptr;
        // a body has been assigned and we were scheduled
        hmix(((uint64_t)t->id << 56) ^ ((uint64_t)E_START << 48));
        if (g_trace) tracef("%6llu T%d start\n", (unsigned long long)g_step, t->id);
        try {
            t->fn(t->arg);
        }
        catch (const gsim::injected& e) {
            failf("crash", "injected exception (site %d, ordinal %d) escaped thread %d",
                  e.site, e.ordinal, t->id);
        }
        catch (const std::exception& e) {
            failf("crash", "exception escaped thread %d: %s", t->id, e.what());
        }
        catch (...) {
            failf("crash", "unknown exception escaped thread %d", t->id);
        }
        t->in_rt++;
        if (t->held_excl || t->held_shared)
            failf("leaked_lock", "thread %d finished holding %d exclusive / %d shared locks",
                  t->id, t->held_excl, t->held_shared);
        step_common(t);
        hmix(((uint64_t)t->id << 56) ^ ((uint64_t)E_EXIT << 48));
        if (g_trace) tracef("%6llu T%d exit\n", (unsigned long long)g_step, t->id);
        t->vc.c[t->id]++;
        if (t->id == 0) {
            t->st = T_FINISHED;
            for (int i = 1; i < g_nthreads; i++)
                if (g_thr[i].st != T_FINISHED && g_thr[i].st != T_FREE)
                    failf("harness", "thread 0 returned while thread %d is still alive", i);
            t->in_rt--;
            __atomic_store_n(&g_done, 1, __ATOMIC_RELEASE);
            futex_wake(&g_done);
        } else {
            t->in_rt--;
            thread_finish(t);
        }
    }
    return nullptr;
}

static void ensure_pool(int n)
{
    while (g_pool < n) {
        Thread* t = &g_thr[g_pool];
        memset(t, 0, sizeof *t);
        t->id = g_pool;
        pthread_attr_t a;
        pthread_attr_init(&a);
        pthread_attr_setstacksize(&a, 1 << 20);
        if (pthread_create(&t->pt, &a, pool_main, t) != 0) {
            fprintf(stderr, "gsim: pthread_create failed\n");
            _exit(2);
        }
        g_pool++;
    }
}

/// parameter fresh=1: every run gets brand-new OS threads, so that thread_local state of
/// the code under test (a per-thread cache, say) cannot leak from one run of a pooled
/// worker into the next — a run is then a pure function of its seed even for such code
static void recycle_pool()
{
    if (g_pool == 0) return;
    __atomic_store_n(&g_pool_exit, 1, __ATOMIC_RELEASE);
    for (int i = 0; i < g_pool; i++) unpark(&g_thr[i]);
    for (int i = 0; i < g_pool; i++) pthread_join(g_thr[i].pt, nullptr);
    __atomic_store_n(&g_pool_exit, 0, __ATOMIC_RELEASE);
    g_pool = 0;
}

static void thread_reset(Thread* t)
{
    int id = t->id;
    pthread_t pt = t->pt;
    memset(t, 0, sizeof *t);
    t->id = id;
    t->pt = pt;
    t->deadline = -1;
    t->freeze_countdown = -1;
    t->tb_max_ns = -1;
    t->tb_latest_deadline = -1;
    t->vc.c[id] = 1;
}

void sync_run_reset();  // rt_sync.cpp
void heap_run_reset();  // rt_heap.cpp
void heap_run_begin();

static void run_common(const gsim::Workload* w)
{
    g_wl = w;
    g_opnames = w->opnames;
    g_nopnames = w->nops;
    if (gsim::param_int("fresh", 0)) recycle_pool();
    ensure_pool(MAXT);
    for (int i = 0; i < MAXT; i++) thread_reset(&g_thr[i]);
    g_nthreads = 1;
    g_step = 0;
    g_clock_ns = 1000000000ll;  // start at 1 s
    g_hash = 0xcbf29ce484222325ull;
    memset(&g_stats, 0, sizeof g_stats);
    memset(g_ev, 0, sizeof g_ev);
    memset(g_ctr, 0, sizeof g_ctr);
    g_nwin = 0;
    g_win_rr = 0;
    memset(g_ord_key, 0, sizeof g_ord_key);
    g_ord_next = 1;
    memset(g_fault_rate, 0, sizeof g_fault_rate);
    g_faults_on = true;
    g_rw_pref = 0;
    g_plain_mode = 0;
    g_plain_armed = false;
    g_force_next = -1;
    g_check_races = false;
    g_prio_floor = 0;
    sync_run_reset();
    mem_run_reset();
    heap_run_begin();
    {
        // swarm: plain-code pre-emption in a quarter of the runs (recorded as a knob so
        // that a replay has the same decision points)
        int pm = gsim::knob("plain_preempt", 0, 7);
        g_plain_mode = pm == 6 ? 1 : pm == 7 ? 2 : (pm <= 5 ? 0 : 0);
        if (gsim::param_int("plain", -1) >= 0) g_plain_mode = gsim::param_int("plain", 0);
    }
    Thread* t0 = &g_thr[0];
    t0->st = T_RUNNABLE;
    t0->fn = [](void*) { g_wl->run(); };
    t0->arg = nullptr;
    g_cur = t0;
    __atomic_store_n(&g_done, 0, __ATOMIC_RELAXED);
    __atomic_store_n(&g_active, 1, __ATOMIC_SEQ_CST);
    unpark(t0);
    // controller waits, with a wall-clock watchdog
    struct timespec ts;
    long waited_ms = 0;
    // A run takes microseconds.  If the thread that holds the baton burns CPU for
    // seconds without reaching a single scheduling point, the code under test is in
    // an endless loop that contains no synchronisation (e.g. a corrupted container
    // walk): that is a violation ("hangs"), reported with a replay like any other.
    // A thread that is *asleep* instead sits in a primitive the runtime does not
    // interpose: that is an infrastructure error.
    uint64_t wd_step = ~0ull;
    Thread* wd_thr = nullptr;
    int64_t wd_cpu0 = 0;
    auto thread_cpu_ns = [](Thread* t) -> int64_t {
        clockid_t cid;
        struct timespec c;
        if (!t || pthread_getcpuclockid(t->pt, &cid) != 0) return -1;
        if (syscall(SYS_clock_gettime, cid, &c) != 0) return -1;
        return (int64_t)c.tv_sec * 1000000000ll + c.tv_nsec;
    };
    while (!__atomic_load_n(&g_done, __ATOMIC_ACQUIRE)) {
        ts.tv_sec = 0;
        ts.tv_nsec = 200 * 1000 * 1000;
        syscall(SYS_futex, &g_done, FUTEX_WAIT_PRIVATE, 0, &ts, nullptr, 0);
        if (!__atomic_load_n(&g_done, __ATOMIC_ACQUIRE)) {
            Thread* cur = g_cur;
            uint64_t step = g_step;
            if (step != wd_step || cur != wd_thr) {
                wd_step = step;
                wd_thr = cur;
                wd_cpu0 = thread_cpu_ns(cur);
                waited_ms = 0;
                continue;
            }
            waited_ms += 200;
            long spin_ms = 1000;
            if (const char* e = getenv("GSIM_SPIN_MS")) spin_ms = atol(e);
            if (waited_ms >= spin_ms && wd_cpu0 >= 0 && !g_failing) {
                int64_t c = thread_cpu_ns(cur);
                if (c >= 0 && (c - wd_cpu0) / 1000000 >= spin_ms * 9 / 10) {
                    hmix(0x5B1D);
                    failf("endless_loop", "thread %d used %lld ms of CPU after step %llu without "
                          "reaching a scheduling point: an endless loop without synchronisation in "
                          "the code under test", cur ? cur->id : -1,
                          (long long)((c - wd_cpu0) / 1000000), (unsigned long long)step);
                }
            }
            long lim = g_trace ? 60000 : 10000;
            if (const char* e = getenv("GSIM_WATCHDOG_MS")) lim = atol(e);
            if (waited_ms >= lim) {
                fprintf(stderr,
                        "gsim: INFRA watchdog: run %llu made no progress for %ld ms at step "
                        "%llu (thread %d running; uninterposed blocking primitive?)\n",
                        (unsigned long long)g_meta_run, waited_ms,
                        (unsigned long long)g_step, g_cur ? g_cur->id : -1);
                _exit(2);
            }
        }
    }
    __atomic_store_n(&g_active, 0, __ATOMIC_SEQ_CST);
    g_stats.steps = g_step;
    g_stats.event_hash = g_hash;
    g_stats.sim_ns = g_clock_ns - 1000000000ll;
    g_stats.nthreads = g_nthreads;
    g_stats.strategy = g_strategy;
    g_stats.n_overrides = (uint64_t)g_nov;
    heap_run_reset();
}

}  // namespace gsim_rt

// =================================================================== ctl
namespace gsim_ctl {
using namespace gsim_rt;

static const gsim::Workload* g_wls[16];
static int g_nwls = 0;

const gsim::Workload* find_workload(const char* name)
{
    for (int i = 0; i < g_nwls; i++)
        if (!strcmp(g_wls[i]->name, name)) return g_wls[i];
    return nullptr;
}
const gsim::Workload* first_workload()
{
    return g_nwls ? g_wls[0] : nullptr;
}
void set_param(const char* k, const char* v)
{
    for (int i = 0; i < g_nparams; i++)
        if (!strcmp(g_params[i].k, k)) {
            snprintf(g_params[i].v, sizeof g_params[i].v, "%s", v);
            return;
        }
    if (g_nparams < 32) {
        snprintf(g_params[g_nparams].k, sizeof g_params[0].k, "%s", k);
        snprintf(g_params[g_nparams].v, sizeof g_params[0].v, "%s", v);
        g_nparams++;
    }
}
void set_property(const char* id)
{
    g_property = strdup(id);
}
void set_thorough(bool t)
{
    g_thorough = t;
}
void set_fail_out(const char* path)
{
    snprintf(g_fail_out, sizeof g_fail_out, "%s", path);
}
void set_trace(FILE* f)
{
    g_trace = f;
}
void set_meta(uint64_t verif_seed, uint64_t run_index)
{
    g_meta_seed = verif_seed;
    g_meta_run = run_index;
}
void set_limits(long s_fault, long s_max)
{
    g_s_fault = s_fault;
    g_s_max = s_max;
}
void replay_begin()
{
    g_replay = true;
    g_nknobs = 0;
    g_nov = 0;
    g_ov_overflow = false;
    g_prog_nthr = 0;
    g_prog_loaded = true;
    memset(g_prog_len, 0, sizeof g_prog_len);
}
void replay_knob(const char* name, int v)
{
    if (g_nknobs < 48) {
        snprintf(g_knobs[g_nknobs].name, sizeof g_knobs[0].name, "%s", name);
        g_knobs[g_nknobs].v = v;
        g_nknobs++;
    }
}
void replay_override(int tid, int kind, int k, int val)
{
    ov_record(tid, kind, (uint32_t)k, val);
}
void use_workload(const gsim::Workload* w)
{
    g_wl = w;
    g_opnames = w->opnames;
    g_nopnames = w->nops;
}
int op_code_by_name(const char* name)
{
    for (int i = 0; i < g_nopnames; i++)
        if (!strcmp(g_opnames[i], name)) return i;
    return -1;
}
int dkind_by_name(const char* name)
{
    for (int i = 0; i < D_NKINDS; i++)
        if (!strcmp(DK_NAMES[i], name)) return i;
    return -1;
}
const char* dkind_name(int d)
{
    return DK_NAMES[d];
}
const char* strategy_name(int s)
{
    return ST_NAMES[s];
}

void run_search(const gsim::Workload* w, uint64_t run_seed)
{
    g_replay = false;
    g_run_seed = run_seed;
    Rng r{run_seed};
    g_rng_prog.s = r.next();
    g_rng_knob.s = r.next();
    g_rng_sched.s = r.next();
    g_nknobs = 0;
    g_nov = 0;
    g_ov_overflow = false;
    g_prog_nthr = 0;
    g_prog_loaded = false;
    memset(g_prog_len, 0, sizeof g_prog_len);
    // strategy (swarm): drawn from the knob stream
    Rng& k = g_rng_knob;
    int forced = -1;
    for (int i = 0; i < g_nparams; i++)
        if (!strcmp(g_params[i].k, "strategy")) {
            for (int s = 0; s < N_STRATEGIES; s++)
                if (!strcmp(ST_NAMES[s], g_params[i].v)) forced = s;
        }
    uint32_t pick = k.below(100);
    g_strategy = pick < 35 ? S_WALK : pick < 65 ? S_PCT : pick < 85 ? S_FEW : S_STALL;
    if (forced >= 0) g_strategy = forced;
    static const int stays[] = {0, 300, 600, 850, 950};
    g_stay_permille = stays[k.below(5)];
    uint64_t est = (uint64_t)gsim::param_int("est", 200);
    if (est < 16) est = 16;
    if (k.below(3) == 0) est /= 2;  // many runs are shorter than the estimate
    g_nchange = 0;
    if (g_strategy == S_PCT) {
        int d = 1 + (int)k.below(g_thorough ? 5 : 4);
        for (int i = 0; i < d - 1; i++) g_change_pts[g_nchange++] = 1 + k.below((uint32_t)est);
    } else if (g_strategy == S_FEW) {
        int c = 1 + (int)k.below(4);
        for (int i = 0; i < c; i++) g_change_pts[g_nchange++] = 1 + k.below((uint32_t)est);
    } else if (g_strategy == S_STALL) {
        g_stall_victim = (int)k.below(4);
        g_stall_from = k.below((uint32_t)est);
        g_stall_to = g_stall_from + 4 + k.below((uint32_t)(est));
    }
    run_common(w);
}

void run_replay(const gsim::Workload* w)
{
    g_replay = true;
    g_strategy = S_WALK;
    ov_index_build();
    run_common(w);
}

const RunStats& last_stats()
{
    return g_stats;
}
int probe_count()
{
    return g_nprobes;
}
const char* probe_name(int i)
{
    return g_probes[i].name;
}
uint64_t probe_value(int i)
{
    return g_probes[i].v;
}
uint64_t fault_fired(int d)
{
    return g_fault_fired[d];
}
void dump_run_json(FILE* f, const char* cls, const char* msg, int max_overrides)
{
    dump_json(f, cls, msg, max_overrides);
}
void install_crash_handlers()
{
    struct sigaction sa;
    memset(&sa, 0, sizeof sa);
    sa.sa_sigaction = crash_handler;
    sa.sa_flags = SA_SIGINFO | SA_NODEFER;
    sigaction(SIGSEGV, &sa, nullptr);
    sigaction(SIGBUS, &sa, nullptr);
    sigaction(SIGABRT, &sa, nullptr);
    sigaction(SIGFPE, &sa, nullptr);
    sigaction(SIGILL, &sa, nullptr);
    std::set_terminate(terminate_handler);
}
}  // namespace gsim_ctl

// =================================================================== API
namespace gsim {
using namespace gsim_rt;

void register_workload(const Workload* w)
{
    if (gsim_ctl::g_nwls < 16) gsim_ctl::g_wls[gsim_ctl::g_nwls++] = w;
}

bool prog_loaded()
{
    return g_prog_loaded;
}
void prog_reset(int n)
{
    g_prog_nthr = n > MAXT ? MAXT : n;
    memset(g_prog_len, 0, sizeof g_prog_len);
}
void prog_add(int t, Op op)
{
    if (t < 0 || t >= MAXT) return;
    if (t >= g_prog_nthr) g_prog_nthr = t + 1;
    if (g_prog_len[t] < MAX_OPS) g_prog[t][g_prog_len[t]++] = op;
}
int prog_nthreads()
{
    return g_prog_nthr;
}
int prog_len(int t)
{
    return (t >= 0 && t < g_prog_nthr) ? g_prog_len[t] : 0;
}
Op prog_op(int t, int i)
{
    const Op& o = g_prog[t][i];
    if (g_trace && tl_self && tl_self->id != 0) {
        const char* nm = (g_opnames && o.code >= 0 && o.code < g_nopnames) ? g_opnames[o.code] : "?";
        tracef("        T%d: ---- program[%d][%d] = %s(%d,%d,%d)\n", tl_self->id, t, i, nm, o.a, o.b, o.c);
    }
    return o;
}
void op_names(const char* const* names, int n)
{
    g_opnames = names;
    g_nopnames = n;
}
int gen_int(int n)
{
    return n > 0 ? (int)g_rng_prog.below((uint32_t)n) : 0;
}
int knob(const char* name, int lo, int hi)
{
    for (int i = 0; i < g_nknobs; i++)
        if (!strcmp(g_knobs[i].name, name)) {
            int v = g_knobs[i].v;
            if (v < lo) v = lo;
            if (v > hi) v = hi;
            return v;
        }
    int v = lo;
    if (!g_replay) {
        // command line may pin a knob: --set knob.NAME=v
        char key[64];
        snprintf(key, sizeof key, "knob.%s", name);
        int pinned = param_int(key, -1000000);
        uint32_t r = g_rng_knob.below((uint32_t)(hi - lo + 1));
        v = pinned != -1000000 ? pinned : lo + (int)r;
    }
    if (g_nknobs < 48) {
        snprintf(g_knobs[g_nknobs].name, sizeof g_knobs[0].name, "%s", name);
        g_knobs[g_nknobs].v = v;
        g_nknobs++;
    }
    return v;
}
const char* param(const char* name, const char* dflt)
{
    for (int i = 0; i < g_nparams; i++)
        if (!strcmp(g_params[i].k, name)) return g_params[i].v;
    return dflt;
}
int param_int(const char* name, int dflt)
{
    const char* v = param(name, nullptr);
    return v ? atoi(v) : dflt;
}
const char* property()
{
    return g_property;
}
bool thorough()
{
    return g_thorough;
}

int spawn(thread_fn fn, void* arg)
{
    Thread* t = tl_self;
    RtScope rs(t);
    sched_point(E_SPAWN, nullptr);
    g_plain_armed = true;
    // reuse the slot of a finished and joined thread if there is one
    Thread* c = nullptr;
    for (int i = 1; i < g_nthreads; i++)
        if (g_thr[i].st == T_FINISHED && g_thr[i].joined) {
            c = &g_thr[i];
            break;
        }
    uint32_t own = 0;
    if (c) {
        // decision keys are (thread slot, kind, ordinal): the ordinals keep
        // counting across incarnations of the slot
        uint32_t dc[D_NKINDS];
        memcpy(dc, c->dec_count, sizeof dc);
        own = c->vc.c[c->id];
        thread_reset(c);
        memcpy(c->dec_count, dc, sizeof dc);
    } else {
        if (g_nthreads >= MAXT) failf("harness", "too many threads");
        c = &g_thr[g_nthreads++];
    }
    c->fn = fn;
    c->arg = arg;
    c->vc = t->vc;
    c->vc.c[c->id] = own + 1;
    c->st = T_RUNNABLE;
    c->prio = (int)(g_rng_knob.next() % 1000) + 1;
    t->vc.c[t->id]++;
    return c->id;
}
void join(int tid)
{
    Thread* t = tl_self;
    RtScope rs(t);
    sched_point(E_JOIN, nullptr);
    Thread* c = &g_thr[tid];
    while (c->st != T_FINISHED) {
        t->st = T_BLOCKED;
        t->bk = B_JOIN;
        t->bobj = nullptr;
        t->bval = tid;
        block_here();
    }
    vc_join(t->vc, c->vc);
    c->joined = true;
}
int self()
{
    return tl_self ? tl_self->id : -1;
}
void yield()
{
    Thread* t = tl_self;
    if (!g_active || !t || t->ignore) return;
    RtScope rs(t);
    t->yielded = true;
    if (g_strategy == S_PCT && !g_replay) t->prio = --g_prio_floor;
    sched_point(E_YIELD, nullptr);
}
uint64_t seq()
{
    return g_step;
}
int64_t now_ns()
{
    return g_clock_ns;
}
int choose(int n)
{
    Thread* t = tl_self;
    RtScope rs(t);
    int chosen = 0;
    if (!g_replay && n > 1) chosen = (int)g_rng_sched.below((uint32_t)n);
    int v = decide_with(D_CHOOSE, n, 0, chosen);
    hmix(0xC0 ^ (uint64_t)v);
    return v;
}
static int fault_to_dkind(Fault f)
{
    switch (f) {
        case F_SPURIOUS_WAKE: return D_SPURIOUS_WAKE;
        case F_TIME_JUMP: return D_TIME_JUMP;
        case F_SPURIOUS_TRYLOCK: return D_SPURIOUS_TRYLOCK;
        case F_STALE_READ: return D_READ;
        case F_THROW: return D_THROW;
        case F_ALLOC_FAIL: return D_ALLOC_FAIL;
        default: return D_THROW;
    }
}
uint64_t faults_fired(Fault f)
{
    return g_fault_fired[fault_to_dkind(f)];
}
void enable_fault(Fault f, int permille)
{
    g_fault_rate[fault_to_dkind(f)] = permille;
}
bool fault_fires(Fault f)
{
    Thread* t = tl_self;
    RtScope rs(t);
    return fault_decide(fault_to_dkind(f));
}
void check_races(bool on)
{
    g_check_races = on;
}
void faults_off()
{
    g_faults_on = false;
}
void faults_on()
{
    g_faults_on = true;
}
void set_rw_pref(int p)
{
    g_rw_pref = p;
}

void ev_set(int id)
{
    Thread* t = tl_self;
    RtScope rs(t);
    sched_point(E_EVSET, nullptr);
    g_ev[id & 63] = true;
}
bool ev_isset(int id)
{
    return g_ev[id & 63];
}
void ev_wait(int id)
{
    Thread* t = tl_self;
    RtScope rs(t);
    sched_point(E_EVWAIT, nullptr);
    while (!g_ev[id & 63]) {
        t->st = T_BLOCKED;
        t->bk = B_EVENT;
        t->bobj = nullptr;
        t->bval = id & 63;
        block_here();
    }
}
void ctr_add(int id, int d)
{
    Thread* t = tl_self;
    RtScope rs(t);
    sched_point(E_CTR, nullptr);
    g_ctr[id & 63] += d;
}
int ctr_get(int id)
{
    return g_ctr[id & 63];
}
void ctr_wait_ge(int id, int n)
{
    Thread* t = tl_self;
    RtScope rs(t);
    sched_point(E_CTR, nullptr);
    while (g_ctr[id & 63] < n) {
        t->st = T_BLOCKED;
        t->bk = B_CTR;
        t->bobj = nullptr;
        t->bval = ((int64_t)(id & 63) << 32) | (uint32_t)n;
        block_here();
    }
}
void freeze_arm(int tid, int k)
{
    g_thr[tid].freeze_countdown = k;
}
void freeze_disarm(int tid)
{
    g_thr[tid].freeze_countdown = -1;
}
bool is_frozen(int tid)
{
    return g_thr[tid].frozen;
}
void thaw(int tid)
{
    if (g_thr[tid].frozen) tracef("        [T%d thawed]\n", tid);
    if (g_thr[tid].frozen) g_force_next = tid;
    g_thr[tid].frozen = false;
    g_thr[tid].freeze_countdown = -1;
}
uint64_t my_steps()
{
    return tl_self->n_steps;
}

Oracle::Oracle()
{
    if (tl_self) tl_self->ignore++;
}
Oracle::~Oracle()
{
    if (tl_self) tl_self->ignore--;
}
void ignore_begin()
{
    if (tl_self) tl_self->ignore++;
}
void ignore_end()
{
    if (tl_self) tl_self->ignore--;
}
void fail(const char* cls, const char* fmt, ...)
{
    va_list ap;
    va_start(ap, fmt);
    vfail(cls, fmt, ap);
}
void note(const char* fmt, ...)
{
    if (!g_trace) return;
    if (tl_self) tl_self->in_rt++;
    va_list ap;
    va_start(ap, fmt);
    fprintf(g_trace, "        T%d: ", tl_self ? tl_self->id : -1);
    vfprintf(g_trace, fmt, ap);
    fputc('\n', g_trace);
    va_end(ap);
    if (tl_self) tl_self->in_rt--;
}
void probe(const char* name)
{
    for (int i = 0; i < g_nprobes; i++)
        if (g_probes[i].name == name || !strcmp(g_probes[i].name, name)) {
            g_probes[i].v++;
            return;
        }
    if (g_nprobes < gsim_ctl::MAX_PROBES) {
        g_probes[g_nprobes].name = name;
        g_probes[g_nprobes].v = 1;
        g_nprobes++;
    }
}
void hash_mix(uint64_t v)
{
    hmix(v);
}

void win_begin(const void* obj, bool write)
{
    Thread* t = tl_self;
    if (!t) return;
    t->in_rt++;
    (void)obj_ordinal(obj);
    for (int i = 0; i < g_nwin; i++) {
        if (g_win[i].obj == obj) {
            if (g_win[i].write || write) {
                if (g_win[i].tid == t->id)
                    failf("harness", "nested window on the same object by one thread");
                failf("overlap",
                      "thread %d starts %s access to object #%d while thread %d is inside a "
                      "%s access to it",
                      t->id, write ? "a write" : "a read", obj_ordinal(obj), g_win[i].tid,
                      g_win[i].write ? "write" : "read");
            } else if (g_win[i].tid != t->id) {
                g_win_rr = 1;
            }
        }
    }
    if (g_nwin >= 64) failf("harness", "too many open windows");
    g_win[g_nwin++] = Win{obj, t->id, write};
    if (g_trace)
        tracef("        T%d: window open  %s #%d\n", t->id, write ? "W" : "R", obj_ordinal(obj));
    t->in_rt--;
}
void win_end(const void* obj, bool write)
{
    Thread* t = tl_self;
    if (!t) return;
    for (int i = g_nwin - 1; i >= 0; i--) {
        if (g_win[i].obj == obj && g_win[i].tid == t->id && g_win[i].write == write) {
            g_win[i] = g_win[--g_nwin];
            if (g_trace)
                tracef("        T%d: window close %s #%d\n", t->id, write ? "W" : "R",
                       obj_ordinal(obj));
            return;
        }
    }
    failf("harness", "win_end without win_begin");
}
int win_rr_seen()
{
    return g_win_rr;
}

int held_exclusive()
{
    return tl_self->held_excl;
}
int held_shared()
{
    return tl_self->held_shared;
}
uint64_t blocks_count()
{
    return tl_self->n_block;
}
uint64_t yields_count()
{
    return tl_self->n_yield;
}
int64_t timed_block_max_ns()
{
    return tl_self->tb_max_ns;
}
int64_t timed_block_latest_deadline()
{
    return tl_self->tb_latest_deadline;
}
uint64_t last_cond_reacquire_seq()
{
    return tl_self->cond_reacquire_step;
}
void timed_block_reset()
{
    tl_self->tb_max_ns = -1;
    tl_self->tb_latest_deadline = -1;
}
void forbid_blocking_on(const void* obj, const char* cls)
{
    tl_self->forbid_obj = obj;
    if (obj) tl_self->forbid_cls = cls;
}
const void* last_lock_obj()
{
    return tl_self->last_lock;
}
void forbid_blocking(bool on, const char* cls)
{
    tl_self->forbid_block = on;
    tl_self->forbid_cls = cls;
}

}  // namespace gsim

namespace gsim_rt {
// wake predicates for harness-level blocks (the pthread-level ones are in
// rt_sync.cpp)
bool harness_enabled(Thread* t)
{
    switch (t->bk) {
        case B_JOIN: return g_thr[t->bval].st == T_FINISHED;
        case B_EVENT: return g_ev[t->bval];
        case B_CTR: return g_ctr[t->bval >> 32] >= (int)(uint32_t)t->bval;
        case B_SLEEP: return false;
        default: return false;
    }
}
Thread* thread_by_id(int i)
{
    return &g_thr[i];
}
int thread_count()
{
    return g_nthreads;
}
}  // namespace gsim_rt
