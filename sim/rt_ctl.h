// control interface between the driver (main.cpp) and the runtime (rt.cpp)
#pragma once
#include "gsim.h"

#include <stdint.h>
#include <stdio.h>

namespace gsim_ctl {

const gsim::Workload* find_workload(const char* name);
const gsim::Workload* first_workload();

void set_param(const char* k, const char* v);
void set_property(const char* id);
void set_thorough(bool t);
void set_fail_out(const char* path);  ///< where fail() writes the replay file
void set_trace(FILE* f);
void set_meta(uint64_t verif_seed, uint64_t run_index);
void set_limits(long s_fault, long s_max);

// replay inputs
void replay_begin();  ///< clears knobs / program / overrides, enters replay mode
void replay_knob(const char* name, int v);
void replay_override(int tid, int kind, int k, int val);
void use_workload(const gsim::Workload* w);
int op_code_by_name(const char* name);  ///< -1 if unknown (needs a first run to register names)
int dkind_by_name(const char* name);

/// run the workload once. search mode: everything derives from run_seed.
/// Returns only if the run passed.
void run_search(const gsim::Workload* w, uint64_t run_seed);
void run_replay(const gsim::Workload* w);

struct RunStats {
    uint64_t steps;
    uint64_t switches;  ///< context switches
    uint64_t preemptions;  ///< switches away from a still-runnable thread
    uint64_t event_hash;
    int64_t sim_ns;
    int nthreads;
    int strategy;
    uint64_t n_overrides;
};
const RunStats& last_stats();

// cumulative counters
constexpr int MAX_PROBES = 96;
int probe_count();
const char* probe_name(int i);
uint64_t probe_value(int i);
uint64_t fault_fired(int dkind);
const char* dkind_name(int dkind);
const char* strategy_name(int s);
constexpr int N_STRATEGIES = 5;

/// write the current run's (program, knobs, overrides) as JSON (used for
/// evidence samples); max_overrides limits the schedule prefix written
void dump_run_json(FILE* f, const char* cls, const char* msg, int max_overrides);

void install_crash_handlers();
}  // namespace gsim_ctl
