// wl_dd — DelayedDestructor<Obj> / DelayedDestructorSingleThread<Obj> (C16):
// objects are destroyed exactly once, never while another owner holds them,
// at the latest with the container; the callback runs once before each reaped
// object; callback and destructor run outside the container's lock (they may
// re-enter add / size / destroyObjects); concurrent calls lose or duplicate
// nothing.  mode=throw (C20): a throwing callback is swallowed.
#include "common.h"

#include <mutex>

#include <gmlc/concurrency/DelayedDestructor.hpp>

#include <chrono>
#include <map>
#include <memory>
#include <set>
#include <vector>

enum { OP_ADD = 0, OP_DROP, OP_DESTROY, OP_DESTROY_DELAY, OP_SIZE, OP_ADD_EMPTY };
static const char* const OPN[] = {"add", "drop", "destroy", "destroy_delay", "size", "add_empty"};

namespace {
struct Obj;
struct Info {
    int ext = 0;  // external owners (harness slots)
    int callbacks = 0;
    bool added = false;
    bool destroyed = false;
};
struct State {
    std::map<const Obj*, Info> objs;
    long created = 0, destroyed = 0;
    int in_container_call[gsim::MAX_THREADS] = {0};
    int cb_mode = 0;  // 0 none, 1 counting, 2 re-enters size, 3 re-enters add, 4 re-enters destroy
    int dtor_mode = 0;  // 0 plain, 1 re-enters size, 2 re-enters destroyObjects, 3 re-enters add
    bool throwing = false;
    bool container_alive = true;
    bool readd_in_dtor = false;
    int reentrant_adds = 0;
    // callback mode 5: the callback keeps a copy of the pointer it is handed (it gets a
    // non-const shared_ptr&); the object then lives until that copy is dropped, but the
    // container is done with it: no second callback, not queued any more
    std::vector<std::shared_ptr<Obj>>* parked = nullptr;
    std::mutex park_mx;
    int parked_total = 0;
    int empties = 0;  // empty pointers handed to the container (param empty=1)
};
State* S;

struct Obj {
    long id;
    void (*reenter)(int) = nullptr;
    explicit Obj(long i, void (*re)(int)): id(i), reenter(re)
    {
        gsim::Oracle o;
        S->objs[this] = Info();
        S->created++;
    }
    ~Obj()
    {
        int mode;
        {
            gsim::Oracle o;
            Info& in = S->objs[this];
            if (in.destroyed)
                gsim::fail("double_destroy", "object %ld destroyed twice", id);
            in.destroyed = true;
            S->destroyed++;
            if (in.ext > 0)
                gsim::fail("destroyed_while_owned", "object %ld destroyed while %d other owners "
                           "still hold it", id, in.ext);
            bool reaped = S->in_container_call[gsim::self()] > 0;
            if (reaped && S->cb_mode && !S->throwing && in.callbacks != 1)
                gsim::fail("callback_count", "object %ld reaped by the container after %d "
                           "callbacks (expected exactly one)", id, in.callbacks);
            if (in.callbacks > 1)
                gsim::fail("callback_count", "callback ran %d times for object %ld", in.callbacks, id);
            // while the container itself is being destroyed only the "queue a follow-up
            // object" re-entry stays on (knob): its destructor loops until nothing is queued
            mode = S->container_alive ? S->dtor_mode : (S->dtor_mode == 3 && S->readd_in_dtor ? 3 : 0);
        }
        // the destructor must be able to call back into the container
        if (mode && reenter) reenter(mode);
    }
};
using Ptr = std::shared_ptr<Obj>;

template<class DD>
struct WL {
    DD* dd;
    static inline WL* self = nullptr;

    struct Scope {
        Scope()
        {
            gsim::Oracle o;
            S->in_container_call[gsim::self()]++;
        }
        ~Scope()
        {
            gsim::Oracle o;
            S->in_container_call[gsim::self()]--;
        }
    };

    static void reenter_from_dtor(int mode)
    {
        WL* w = self;
        if (!w || !w->dd) return;
        gsim::probe("dd.destructor_reentered");
        if (mode == 1) gsim::hash_mix((uint64_t)w->dd->size());
        else if (mode == 2) (void)w->dd->destroyObjects();
        else if (mode == 3) {
            bool ok;
            {
                gsim::Oracle o;
                ok = S->reentrant_adds < 2;
                if (ok) S->reentrant_adds++;
            }
            if (ok) w->add_new(9000 + S->reentrant_adds, 0, nullptr);
        }
    }

    void add_new(long id, int keep, std::vector<Ptr>* slots)
    {
        Ptr p = std::make_shared<Obj>(id, &reenter_from_dtor);
        {
            gsim::Oracle o;
            S->objs[p.get()].added = true;
            S->objs[p.get()].ext = keep;
        }
        for (int k = 0; k < keep; k++) slots->push_back(p);
        dd->addObjectsToBeDestroyed(std::move(p));
    }

    static void callback(Ptr& p)
    {
        int mode;
        bool thr;
        if (!p) {
            // an empty pointer handed to the container (param empty=1) is no object: it is never
            // "reaped", so no callback belongs to it (seed C16-j)
            gsim::Oracle o;
            gsim::fail("callback_without_object", "the pre-destruction callback ran with an empty "
                       "pointer: no object handed to the container corresponds to it");
            return;
        }
        {
            gsim::Oracle o;
            S->objs[p.get()].callbacks++;
            if (S->objs[p.get()].destroyed)
                gsim::fail("callback_after_destroy", "callback for an object that is destroyed");
            mode = S->cb_mode;
            thr = S->throwing;
        }
        WL* w = self;
        if (mode == 2) gsim::hash_mix((uint64_t)w->dd->size());
        else if (mode == 3) {
            bool ok;
            {
                gsim::Oracle o;
                ok = S->reentrant_adds < 2;
                if (ok) S->reentrant_adds++;
            }
            if (ok) w->add_new(8000 + S->reentrant_adds, 0, nullptr);
        } else if (mode == 4) (void)w->dd->destroyObjects();
        else if (mode == 5) {
            bool ok;
            {
                gsim::Oracle o;
                ok = S->parked_total < 3;
                if (ok) {
                    S->parked_total++;
                    S->objs[p.get()].ext++;
                }
            }
            if (ok) {
                Ptr q = p;  // a real copy: the reference count changes
                // handed to whoever drops it later through a real mutex (the hand-over
                // must synchronise, as it would in a program)
                std::lock_guard<std::mutex> g(S->park_mx);
                S->parked->push_back(std::move(q));
                gsim::probe("dd.callback_parked_a_copy");
            }
        }
        if (mode >= 2) gsim::probe("dd.callback_reentered");
        if (thr && gsim::fault_fires(gsim::F_THROW)) throw gsim::injected{70, 0};
    }

    /// drop one of the copies parked by callbacks (any thread may do that)
    bool unpark_one()
    {
        Ptr q;
        {
            std::lock_guard<std::mutex> g(S->park_mx);
            if (S->parked->empty()) return false;
            q = std::move(S->parked->back());
            S->parked->pop_back();
        }
        {
            gsim::Oracle o;
            S->objs[q.get()].ext--;
        }
        q.reset();  // usually destroys the object: the container let go of it when it was reaped
        return true;
    }
    void drop_one(std::vector<Ptr>& slots, int which)
    {
        if ((which & 1) && unpark_one()) return;
        if (slots.empty()) return;
        size_t idx = (size_t)which % slots.size();
        Ptr p = std::move(slots[idx]);
        slots.erase(slots.begin() + (long)idx);
        {
            gsim::Oracle o;
            S->objs[p.get()].ext--;
        }
        p.reset();  // may destroy the object if the container already let go of it
    }

    void body(int t, std::vector<Ptr>& slots)
    {
        using namespace std::chrono_literals;
        int n = gsim::prog_len(t);
        for (int i = 0; i < n; i++) {
            gsim::Op op = gsim::prog_op(t, i);
            switch (op.code) {
                case OP_ADD: add_new(100 * (t + 1) + i + 1, op.a % 3, &slots); break;
                case OP_DROP: drop_one(slots, op.a); break;
                case OP_DESTROY: {
                    Scope sc;
                    gsim::hash_mix((uint64_t)dd->destroyObjects());
                    break;
                }
                case OP_DESTROY_DELAY: {
                    static const int ms[] = {0, 3, 10, 120};
                    Scope sc;
                    gsim::hash_mix((uint64_t)dd->destroyObjects(std::chrono::milliseconds(ms[op.a & 3])));
                    break;
                }
                case OP_SIZE: gsim::hash_mix((uint64_t)dd->size()); break;
                case OP_ADD_EMPTY: {
                    // legal, if pointless: an empty shared_ptr is no object; the container may keep
                    // or drop the entry, but nothing is destroyed and no callback is due
                    {
                        gsim::Oracle o;
                        S->empties++;
                    }
                    dd->addObjectsToBeDestroyed(Ptr{});
                    gsim::probe("dd.empty_pointer_added");
                    break;
                }
                default: break;
            }
            if (gsim::held_exclusive())
                gsim::fail("leaked_lock", "a DelayedDestructor call returned with its lock held");
        }
    }
    struct Arg {
        WL* w;
        int t;
        std::vector<Ptr>* slots;
    };
    static void tramp(void* p)
    {
        Arg* a = (Arg*)p;
        a->w->body(a->t, *a->slots);
    }

    void run(bool single_thread)
    {
        State st;
        S = &st;
        self = this;
        st.throwing = !strcmp(gsim::param("mode", "std"), "throw");
        st.cb_mode = gsim::knob("callback", 0, 5);
        st.parked = new std::vector<Ptr>();
        st.dtor_mode = gsim::knob("dtor", 0, 3);
        st.readd_in_dtor = gsim::knob("readd_in_dtor", 0, 1) != 0;
        if (st.throwing && st.cb_mode == 0) st.cb_mode = 1;
        const bool with_empty = gsim::param_int("empty", 0) != 0;
        if (!gsim::prog_loaded()) {
            int n = single_thread ? 1 : 2 + gsim::gen_int(3);
            gsim::prog_reset(n);
            for (int t = 0; t < n; t++) {
                int k = single_thread ? 2 + gsim::gen_int(10) : 1 + gsim::gen_int(5);
                for (int i = 0; i < k; i++) {
                    static const int pool[] = {OP_ADD, OP_ADD, OP_ADD, OP_DROP, OP_DROP, OP_DESTROY,
                                               OP_DESTROY, OP_DESTROY_DELAY, OP_SIZE};
                    int code = pool[gsim::gen_int(9)];
                    if (with_empty && gsim::gen_int(6) == 0) code = OP_ADD_EMPTY;
                    gsim::prog_add(t, {code, gsim::gen_int(4), 0, 0});
                }
            }
        }
        gsim::enable_fault(gsim::F_TIME_JUMP, gsim::knob("time_jump", 0, 2) * 10);
        gsim::enable_fault(gsim::F_STALE_READ, gsim::knob("stale", 0, 1) * 200);
        if (st.throwing) gsim::enable_fault(gsim::F_THROW, 300);
        if (st.cb_mode) dd = new DD(&callback);
        else dd = new DD();
        int n = gsim::prog_nthreads();
        std::vector<Ptr> slots[gsim::MAX_THREADS];
        if (single_thread) {
            for (int t = 0; t < n; t++) body(t, slots[t]);
        } else {
            Arg args[gsim::MAX_THREADS];
            int tids[gsim::MAX_THREADS];
            for (int t = 0; t < n; t++) {
                args[t] = Arg{this, t, &slots[t]};
                tids[t] = gsim::spawn(tramp, &args[t]);
            }
            for (int t = 0; t < n; t++) gsim::join(tids[t]);
        }
        gsim::faults_off();
        while (unpark_one()) {
        }
        // quiescent: the container holds exactly the added objects that are still alive
        {
            size_t sz = dd->size();
            gsim::Oracle o;
            size_t alive = 0;
            for (auto& kv : st.objs)
                if (kv.second.added && !kv.second.destroyed) alive++;
            // (empty entries may linger or be swept: the statement says nothing about them)
            if (sz < alive || sz > alive + (size_t)st.empties)
                gsim::fail("conservation", "size() is %zu but %zu added objects are alive, %d empty "
                           "pointers were added (an object was lost or duplicated)", sz, alive, st.empties);
        }
        // sometimes external owners outlive the container
        bool drop_first = gsim::knob("drop_before_container", 0, 1) != 0;
        if (drop_first)
            for (int t = 0; t < n; t++)
                while (!slots[t].empty()) drop_one(slots[t], 0);
        {
            // (no Scope here: the statement requires the callback only for objects reaped
            //  by destroyObjects(); how the destructor lets go of the rest is its business)
            {
                gsim::Oracle o;
                st.container_alive = false;  // no re-entry into a container that is being destroyed
            }
            DD* d = dd;
            delete d;
        }
        dd = nullptr;
        while (unpark_one()) {  // copies parked by callbacks the container's destructor made
        }
        if (drop_first) {
            gsim::Oracle o;
            for (auto& kv : st.objs)
                if (!kv.second.destroyed)
                    gsim::fail("not_destroyed_with_container", "object %ld has no other owner but "
                               "survived the destruction of the container", kv.first->id);
        }
        for (int t = 0; t < n; t++)
            while (!slots[t].empty()) drop_one(slots[t], 0);
        {
            gsim::Oracle o;
            for (auto& kv : st.objs)
                if (!kv.second.destroyed)
                    gsim::fail("leak", "an object was never destroyed (created %ld, destroyed %ld)",
                               st.created, st.destroyed);
        }
        delete st.parked;
        self = nullptr;
        S = nullptr;
    }
};

void run()
{
    gsim::check_races(gsim::param_int("races", 0) != 0);
    using namespace gmlc::concurrency;
    if (gsim::param_int("single", 0)) WL<DelayedDestructorSingleThread<Obj>>().run(true);
    else WL<DelayedDestructor<Obj>>().run(false);
}
}  // namespace

GSIM_WORKLOAD(wl_dd, run, OPN)
