// wl_trigger — gmlc::concurrency::TriggerVariable (C11): waits end only on
// their event and the event wakes them; timed forms return false only if the
// event had not happened; trigger on an inactive variable is refused; after
// reset the variable is inactive.  One or two activation epochs per run; the
// second epoch starts only after every waiter of the first has returned.
#include "common.h"

#include <gmlc/concurrency/TriggerVariable.hpp>

#include <chrono>
#include <vector>

enum {
    OP_ACTIVATE = 0,
    OP_TRIGGER_UNTIL,
    OP_TRIGGER_ONCE,
    OP_WAIT,
    OP_WAIT_FOR,
    OP_WAIT_ACT,
    OP_WAIT_FOR_ACT,
    OP_QUERY,
    OP_RESET_AFTER,
    OP_RESET_NOW,
    OP_REARM,
};
static const char* const OPN[] = {"activate", "trigger_until", "trigger_once", "wait", "wait_for",
                                  "wait_activation", "wait_for_activation", "query", "reset_after", "reset_now",
                                  "rearm"};

namespace {
using TV = gmlc::concurrency::TriggerVariable;
struct Ev {
    int op;
    int tid;
    uint64_t inv, resp;
    long r;
    uint64_t reacq = 0;  // step of the last condvar re-acquisition inside the call (0: none)
};
struct State {
    TV* tv;
    bool ctor_active = false;
    std::vector<Ev> evs;
    int waiter_threads = 0;
    long datum = 0;  // plain data written by the only triggering thread before it triggers
    int trig_threads = 0;
    bool has_reset = false;
    int epochs = 1;
};
State* S;

int begin_ev(int op)
{
    gsim::Oracle o;
    S->evs.push_back(Ev{op, gsim::self(), gsim::seq(), ~0ull, 0});
    return (int)S->evs.size() - 1;
}
void end_ev(int i, long r)
{
    gsim::Oracle o;
    Ev& e = S->evs[(size_t)i];
    e.resp = gsim::seq();
    e.r = r;
    uint64_t q = gsim::last_cond_reacquire_seq();
    if (q >= e.inv) e.reacq = q;  // happened inside this call
}

std::chrono::milliseconds dur(int c)
{
    return std::chrono::milliseconds(c % 2 ? 50 : 1);
}

void body(int t)
{
    int n = gsim::prog_len(t);
    bool is_resetter = false;
    for (int i = 0; i < n; i++) {
        gsim::Op op = gsim::prog_op(t, i);
        for (int y = 0; y < op.a; y++) gsim::yield();
        switch (op.code) {
            case OP_ACTIVATE: {
                int e = begin_ev(OP_ACTIVATE);
                bool r = S->tv->activate();
                end_ev(e, r);
                break;
            }
            case OP_TRIGGER_UNTIL: {
                if (S->trig_threads == 1 && !S->has_reset && S->epochs == 1) S->datum = 4711;
                for (;;) {
                    int e = begin_ev(OP_TRIGGER_ONCE);
                    bool r = S->tv->trigger();
                    end_ev(e, r);
                    if (r) break;
                    gsim::yield();
                }
                break;
            }
            case OP_TRIGGER_ONCE: {
                int e = begin_ev(OP_TRIGGER_ONCE);
                bool r = S->tv->trigger();
                end_ev(e, r);
                break;
            }
            case OP_WAIT: {
                int e = begin_ev(OP_WAIT);
                bool r = S->tv->wait();
                end_ev(e, r);
                // if the variable reads as triggered, whatever the (only) triggering
                // thread wrote before trigger() is visible
                if (S->trig_threads == 1 && !S->has_reset && S->epochs == 1 && S->tv->isTriggered()) {
                    if (S->datum != 4711)
                        gsim::fail("stale_publication", "datum written before trigger() reads %ld "
                                   "after wait() returned on a triggered variable", S->datum);
                    gsim::probe("trigger.publication_checked");
                }
                break;
            }
            case OP_WAIT_FOR: {
                int e = begin_ev(OP_WAIT_FOR);
                bool r = S->tv->wait_for(dur(op.c));
                end_ev(e, r);
                break;
            }
            case OP_WAIT_ACT: {
                int e = begin_ev(OP_WAIT_ACT);
                S->tv->waitActivation();
                end_ev(e, 1);
                break;
            }
            case OP_WAIT_FOR_ACT: {
                int e = begin_ev(OP_WAIT_FOR_ACT);
                bool r = S->tv->wait_forActivation(dur(op.c));
                end_ev(e, r);
                break;
            }
            case OP_QUERY: {
                (void)S->tv->isActive();
                (void)S->tv->isTriggered();
                break;
            }
            case OP_RESET_AFTER: {
                // reset once every waiter thread and the activator are done
                gsim::ctr_wait_ge(1, S->waiter_threads);
                is_resetter = true;
                int e = begin_ev(OP_RESET_AFTER);
                S->tv->reset();
                end_ev(e, 0);
                if (S->tv->isActive())
                    gsim::fail("active_after_reset", "isActive() is true right after reset()");
                break;
            }
            case OP_RESET_NOW: {
                // reset while waiters may be blocked: it must release them
                gsim::ctr_wait_ge(2, 1);
                int e = begin_ev(OP_RESET_AFTER);
                S->tv->reset();
                end_ev(e, 0);
                is_resetter = true;
                break;
            }
            default: break;
        }
        if (gsim::held_exclusive())
            gsim::fail("leaked_lock", "a TriggerVariable call returned with a mutex held");
        if (op.code == OP_ACTIVATE) gsim::ctr_add(2, 1);
    }
    if (!is_resetter) gsim::ctr_add(1, 1);
}

bool is_wait_op(int c)
{
    return c == OP_WAIT || c == OP_WAIT_FOR || c == OP_WAIT_ACT || c == OP_WAIT_FOR_ACT;
}

/// validity: the program must be able to finish on a correct implementation
void validate()
{
    int n = gsim::prog_nthreads();
    bool act_first = S->ctor_active, trig_first = false, needs_act = false, needs_trig = false;
    bool has_reset_after = false, has_reset_now = false, has_activate = false, has_trig_until = false;
    bool has_wait_act = false;
    int others = 0;
    for (int t = 0; t < n; t++) {
        bool resetter = false;
        for (int i = 0; i < gsim::prog_len(t); i++) {
            int c = gsim::prog_op(t, i).code;
            if (c == OP_ACTIVATE) {
                has_activate = true;
                if (i == 0) act_first = true;
            }
            if (c == OP_TRIGGER_UNTIL) {
                has_trig_until = true;
                if (i == 0) trig_first = true;
                needs_act = true;
            }
            if (c == OP_WAIT) needs_trig = true;
            if (c == OP_WAIT_ACT) {
                needs_act = true;
                has_wait_act = true;
            }
            if (c == OP_RESET_AFTER || c == OP_RESET_NOW) {
                resetter = true;
                (c == OP_RESET_AFTER ? has_reset_after : has_reset_now) = true;
                if (i != 0 || gsim::prog_len(t) != 1)
                    gsim::fail("harness", "a reset op must be alone in its thread");
            }
        }
        if (!resetter) others++;
    }
    if (has_reset_after && has_reset_now) gsim::fail("harness", "one kind of reset per program");
    if (needs_act && !act_first) gsim::fail("harness", "program needs an activation it cannot get");
    if (has_reset_now) {
        // after the reset the variable stays inactive for the rest of the epoch
        if (has_trig_until || has_wait_act)
            gsim::fail("harness", "reset_now cannot be combined with trigger_until / waitActivation");
        if (!act_first) gsim::fail("harness", "reset_now needs an activation");
    } else if (needs_trig && !(trig_first && act_first)) {
        gsim::fail("harness", "program has wait() but no unconditional trigger_until");
    }
    {
        int tt = 0, once = 0;
        for (int t = 0; t < n; t++)
            for (int i = 0; i < gsim::prog_len(t); i++) {
                if (gsim::prog_op(t, i).code == OP_TRIGGER_UNTIL) tt++;
                if (gsim::prog_op(t, i).code == OP_TRIGGER_ONCE) once++;
            }
        S->trig_threads = (once == 0) ? tt : 99;
        S->has_reset = has_reset_after || has_reset_now;
    }
    // marker "an activation has completed" for reset_now when only the constructor activates
    if (has_reset_now && !has_activate) gsim::ctr_add(2, 1);
    S->waiter_threads = others;
}

uint64_t first_activation_resp(bool& any)
{
    uint64_t best = ~0ull;
    any = false;
    for (auto& e : S->evs)
        if (e.op == OP_ACTIVATE && e.r && e.resp < best) {
            best = e.resp;
            any = true;
        }
    return best;
}

void check_history()
{
    gsim::Oracle o;
    auto& ev = S->evs;
    bool any_act;
    uint64_t act_resp = first_activation_resp(any_act);
    if (S->ctor_active) {
        act_resp = 0;
        any_act = true;
    }
    uint64_t act_inv = ~0ull;  // earliest invocation of any activate()
    for (auto& e : ev)
        if (e.op == OP_ACTIVATE && e.inv < act_inv) act_inv = e.inv;
    if (S->ctor_active) act_inv = 0;
    uint64_t reset_inv = ~0ull;
    for (auto& e : ev)
        if (e.op == OP_RESET_AFTER && e.inv < reset_inv) reset_inv = e.inv;
    // earliest invocation of a trigger that returned true / of a reset
    uint64_t wake_inv = reset_inv;
    uint64_t trig_true_resp = ~0ull;
    for (auto& e : ev)
        if (e.op == OP_TRIGGER_ONCE && e.r) {
            if (e.inv < wake_inv) wake_inv = e.inv;
            if (e.resp < trig_true_resp) trig_true_resp = e.resp;
        }
    for (auto& e : ev) {
        if (e.resp == ~0ull) continue;
        switch (e.op) {
            case OP_WAIT:
            case OP_WAIT_FOR:
                // a wait that began after the activation had completed (and before any
                // reset began) may end only after a successful trigger / a reset began
                if (e.op == OP_WAIT_FOR && !e.r) {
                    if (any_act && trig_true_resp <= e.inv && reset_inv > e.resp)
                        gsim::fail("timeout_after_event", "wait_for returned false although a "
                                   "successful trigger() had returned before it was called");
                    // it gave up no earlier than its last re-acquisition of the mutex it
                    // waited with: a trigger() that had returned true by then had happened
                    if (any_act && e.reacq && trig_true_resp < e.reacq && act_resp <= e.inv &&
                        reset_inv > e.resp)
                        gsim::fail("timeout_after_event", "wait_for returned false although a "
                                   "successful trigger() had returned (step %llu) before the waiter "
                                   "re-acquired its mutex for the last time (step %llu)",
                                   (unsigned long long)trig_true_resp, (unsigned long long)e.reacq);
                    break;
                }
                if (any_act && act_resp <= e.inv && reset_inv > e.inv && wake_inv > e.resp)
                    gsim::fail("woke_without_event", "%s by thread %d on an activated variable "
                               "returned at %llu but no successful trigger() or reset() had begun",
                               e.op == OP_WAIT ? "wait()" : "wait_for()", e.tid,
                               (unsigned long long)e.resp);
                break;
            case OP_WAIT_ACT:
                if (act_inv > e.resp)
                    gsim::fail("woke_without_activation", "waitActivation() returned at %llu but "
                               "no activate() had begun", (unsigned long long)e.resp);
                break;
            case OP_WAIT_FOR_ACT:
                if (e.r && act_inv > e.resp)
                    gsim::fail("woke_without_activation", "wait_forActivation() returned true "
                               "but no activate() had begun");
                if (!e.r && any_act && act_resp <= e.inv && reset_inv > e.resp)
                    gsim::fail("timeout_after_event", "wait_forActivation returned false although "
                               "activation had completed before it was called");
                if (!e.r && any_act && e.reacq && act_resp < e.reacq && reset_inv > e.resp)
                    gsim::fail("timeout_after_event", "wait_forActivation returned false although "
                               "activation had completed before the waiter re-acquired its mutex "
                               "for the last time");
                break;
            case OP_TRIGGER_ONCE:
                if (e.r && act_inv > e.resp)
                    gsim::fail("trigger_on_inactive", "trigger() returned true although no "
                               "activate() had begun");
                if (!e.r && any_act && act_resp <= e.inv && reset_inv > e.resp)
                    gsim::fail("trigger_refused", "trigger() returned false although activation "
                               "had completed before it was called and no reset had begun");
                break;
            default: break;
        }
    }
}

// ---- family "re-arm": reset() races with a thread that re-activates as soon as it can.
// The variable is active and untriggered; T1 resets it (which triggers, then deactivates);
// T2 spins on activate() until it succeeds — it can only succeed once the reset has made
// the variable inactive, so the new activation follows the reset: afterwards the variable
// is active and NOT triggered, and a wait must wait.
void rearm_resetter(void*)
{
    gsim::ev_wait(50);
    for (int y = gsim::choose(3); y > 0; y--) gsim::yield();
    S->tv->reset();
    gsim::ev_set(51);
}
void rearm_activator(void*)
{
    gsim::ev_wait(50);
    int after_reset = 0;
    while (!S->tv->activate()) {
        // activate() is refused while the variable is active; once reset() has returned
        // the variable is inactive and it must succeed
        if (gsim::ev_isset(51) && ++after_reset > 3)
            gsim::fail("active_after_reset", "activate() is still refused (variable active) after "
                       "reset() has returned");
        gsim::yield();
    }
}
void run_rearm()
{
    using namespace std::chrono_literals;
    if (!S->tv->isActive() && !S->tv->activate()) gsim::fail("harness", "activate");
    int a = gsim::spawn(rearm_resetter, nullptr);
    int b = gsim::spawn(rearm_activator, nullptr);
    gsim::ev_set(50);
    gsim::join(a);
    gsim::join(b);
    gsim::faults_off();
    bool act = S->tv->isActive(), trig = S->tv->isTriggered();
    if (!act)
        gsim::fail("inactive_after_activate", "activate() returned true after the reset, yet the "
                   "variable is inactive");
    if (trig)
        gsim::fail("triggered_without_trigger", "the variable was re-activated after reset() and "
                   "nobody triggered it since, but isTriggered() is true (the next wait() will not wait)");
    if (S->tv->wait_for(1ms))
        gsim::fail("woke_without_event", "wait_for on a freshly re-activated variable returned true "
                   "although no trigger() or reset() followed the activation");
    gsim::probe("trigger.rearm_race_checked");
}

void gen_epoch()
{
    int n = 3 + gsim::gen_int(4);
    gsim::prog_reset(n);
    if (gsim::gen_int(8) == 0) {
        gsim::prog_reset(1);
        gsim::prog_add(0, {OP_REARM, 0, 0, 0});
        return;
    }
    if (gsim::gen_int(4) == 0) {
        // family "reset wakes the waiters": activator, resetter, waiters, no trigger_until
        gsim::prog_add(0, {OP_ACTIVATE, gsim::gen_int(3), 0, 0});
        gsim::prog_add(1, {OP_RESET_NOW, gsim::gen_int(3), 0, 0});
        for (int t = 2; t < n; t++) {
            int k = 1 + gsim::gen_int(3);
            for (int i = 0; i < k; i++) {
                static const int pool[] = {OP_WAIT, OP_WAIT, OP_WAIT_FOR, OP_WAIT_FOR_ACT, OP_QUERY,
                                           OP_TRIGGER_ONCE};
                gsim::prog_add(t, {pool[gsim::gen_int(6)], gsim::gen_int(4) == 0 ? 1 + gsim::gen_int(3) : 0,
                                   0, gsim::gen_int(2)});
            }
        }
        return;
    }
    int y = gsim::gen_int(3);
    gsim::prog_add(0, {OP_ACTIVATE, y, 0, 0});
    if (gsim::gen_int(4) == 0) gsim::prog_add(0, {OP_ACTIVATE, 0, 0, 0});
    gsim::prog_add(1, {OP_TRIGGER_UNTIL, gsim::gen_int(3), 0, 0});
    int t = 2;
    if (gsim::gen_int(3) == 0 && t < n - 1) gsim::prog_add(t++, {OP_TRIGGER_UNTIL, gsim::gen_int(3), 0, 0});
    bool reset = gsim::gen_int(3) == 0;
    int last = reset ? n - 1 : n;
    for (; t < last; t++) {
        int k = 1 + gsim::gen_int(3);
        for (int i = 0; i < k; i++) {
            static const int pool[] = {OP_WAIT, OP_WAIT, OP_WAIT_FOR, OP_WAIT_FOR, OP_WAIT_ACT,
                                       OP_WAIT_FOR_ACT, OP_QUERY, OP_TRIGGER_ONCE};
            gsim::prog_add(t, {pool[gsim::gen_int(8)], gsim::gen_int(4) == 0 ? 1 + gsim::gen_int(3) : 0, 0,
                               gsim::gen_int(2)});
        }
    }
    if (reset) gsim::prog_add(n - 1, {OP_RESET_AFTER, 0, 0, 0});
}

void run()
{
    gsim::check_races(gsim::param_int("races", 0) != 0);
    State st;
    S = &st;
    st.ctor_active = gsim::knob("ctor_active", 0, 3) == 0;
    int epochs = gsim::knob("epochs", 1, 2);
    st.epochs = epochs;
    if (!gsim::prog_loaded()) gen_epoch();
    gsim::enable_fault(gsim::F_SPURIOUS_WAKE, gsim::knob("spurious", 0, 2) * 150);
    gsim::enable_fault(gsim::F_TIME_JUMP, gsim::knob("time_jump", 0, 2) * 15);
    gsim::enable_fault(gsim::F_STALE_READ, gsim::knob("stale", 0, 1) * 200);
    st.tv = new TV(st.ctor_active);
    if (gsim::prog_nthreads() == 1 && gsim::prog_len(0) >= 1 && gsim::prog_op(0, 0).code == OP_REARM) {
        run_rearm();
        delete st.tv;
        S = nullptr;
        return;
    }
    for (int ep = 0; ep < epochs; ep++) {
        validate();
        wl::run_program(body);
        check_history();
        // between epochs: everything has returned; reset and start afresh
        st.tv->reset();
        if (st.tv->isActive())
            gsim::fail("active_after_reset", "isActive() is true after reset() (sequential)");
        if (st.tv->trigger())
            gsim::fail("trigger_on_inactive", "trigger() on a reset variable returned true");
        {
            gsim::Oracle o;
            st.evs.clear();
            st.ctor_active = false;
        }
        // harness counters are per epoch
        gsim::ctr_add(1, -gsim::ctr_get(1));
        gsim::ctr_add(2, -gsim::ctr_get(2));
    }
    delete st.tv;
    S = nullptr;
}
}  // namespace

GSIM_WORKLOAD(wl_trigger, run, OPN)
