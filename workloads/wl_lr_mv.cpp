// wl_lr_mv — lr_guarded<T> for a T with a cheap, non-throwing move and an
// expensive copy (std::vector<long>), with functors that throw at their first or
// second application (C20 / C03).  The other lr workload uses a payload whose
// assignment always copies; here a library that "optimises" a copy into a move
// at the wrong place (moving out of the copy readers are looking at) leaves an
// emptied value behind.
#include "common.h"

#include <gmlc/libguarded/lr_guarded.hpp>

#include <vector>

enum { OP_MODIFY = 0, OP_MODIFY_THROW1, OP_MODIFY_THROW2, OP_READ, OP_MODIFY_RVALUE_FUNCTOR };
static const char* const OPN[] = {"modify", "modify_throw_first", "modify_throw_second", "read",
                                  "modify_rvalue_functor"};

namespace {
using Vec = std::vector<long>;
using LR = gmlc::libguarded::lr_guarded<Vec>;

struct State {
    LR* lr;
    std::vector<Vec> states;  // oracle: every value the object has had, in order
    size_t completed = 0;  // index of the newest state whose modify() has returned / thrown
};
State* S;

struct Push {
    long v;
    int throw_at;  // 0 never, 1 first application, 2 second
    int* apps;
    void operator()(Vec& x) const
    {
        int k;
        {
            gsim::Oracle o;
            k = ++*apps;
        }
        x.push_back(v);
        gsim::yield();
        if (k == throw_at) throw gsim::injected{80 + k, 0};
    }
};

/// a functor with ref-qualified call operators: called as an lvalue it copies its
/// payload into the object, called as an rvalue it gives the payload away.  modify()
/// applies its functor twice, so it must call it as an lvalue both times.
struct Append {
    Vec payload;
    void operator()(Vec& x) &
    {
        x.insert(x.end(), payload.begin(), payload.end());
        gsim::yield();
    }
    void operator()(Vec& x) &&
    {
        Vec mine = std::move(payload);  // consumed
        x.insert(x.end(), mine.begin(), mine.end());
        gsim::yield();
    }
};

void check_value(const Vec& got, size_t not_older_than, const char* what)
{
    gsim::Oracle o;
    for (size_t i = not_older_than; i < S->states.size(); i++)
        if (S->states[i] == got) return;
    std::string s = "[";
    for (long x : got) s += std::to_string(x) + " ";
    s += "]";
    gsim::fail("half_modified", "%s sees %s (size %zu), which is none of the %zu states the object "
               "may have at this point (newest has %zu elements)", what, s.c_str(), got.size(),
               S->states.size() - not_older_than, S->states.back().size());
}

void body(int t)
{
    int n = gsim::prog_len(t);
    for (int i = 0; i < n; i++) {
        gsim::Op op = gsim::prog_op(t, i);
        if (op.code == OP_READ) {
            size_t floor;
            {
                gsim::Oracle o;
                floor = S->completed;
            }
            auto h = S->lr->lock_shared();
            Vec a = *h;
            for (int y = 0; y < op.a; y++) gsim::yield();
            Vec b = *h;
            if (a != b)
                gsim::fail("unstable", "the object changed under a shared handle (size %zu -> %zu)",
                           a.size(), b.size());
            check_value(a, floor, "a reader");
            continue;
        }
        long v = 100 * (t + 1) + i + 1;
        if (op.code == OP_MODIFY_RVALUE_FUNCTOR) {
            {
                gsim::Oracle o;
                Vec next = S->states.back();
                next.push_back(v);
                S->states.push_back(next);
            }
            S->lr->modify(Append{Vec{v}});  // a temporary: an rvalue functor
            gsim::Oracle o;
            S->completed = S->states.size() - 1;
            continue;
        }
        int throw_at = op.code == OP_MODIFY ? 0 : op.code == OP_MODIFY_THROW1 ? 1 : 2;
        int apps = 0;
        {
            // the new state becomes possible as soon as the call starts
            gsim::Oracle o;
            (void)v;
        }
        bool threw = false;
        int held = gsim::held_exclusive();
        // writers are serialised by the library; record the candidate state inside the functor's
        // first application would be racy, so do it around the call under the oracle:
        {
            gsim::Oracle o;
            if (throw_at != 1) {
                Vec next = S->states.back();
                next.push_back(v);
                S->states.push_back(next);  // visible to readers at some point during the call
            }
        }
        try {
            S->lr->modify(Push{v, throw_at, &apps});
        }
        catch (const gsim::injected&) {
            threw = true;
        }
        if (threw != (throw_at != 0)) gsim::fail("exception_lost", "modify() %s", threw ? "threw" : "swallowed the exception");
        if (gsim::held_exclusive() != held)
            gsim::fail("lock_leaked_on_throw", "modify() left the write mutex locked");
        {
            gsim::Oracle o;
            if (throw_at != 1) S->completed = S->states.size() - 1;
        }
    }
}

void run()
{
    gsim::check_races(gsim::param_int("races", 0) != 0);
    if (!gsim::prog_loaded()) {
        // one writer thread (the oracle's state list is a simple sequence) and 1..3 readers
        int nr = 1 + gsim::gen_int(3);
        gsim::prog_reset(1 + nr);
        int k = 1 + gsim::gen_int(4);
        for (int i = 0; i < k; i++) {
            int c = gsim::gen_int(8);
            gsim::prog_add(0, {c < 2 ? OP_MODIFY : c < 4 ? OP_MODIFY_THROW2 : c < 6 ? OP_MODIFY_THROW1 :
                                                                              OP_MODIFY_RVALUE_FUNCTOR,
                               0, 0, 0});
        }
        for (int t = 1; t <= nr; t++) {
            int r = 1 + gsim::gen_int(3);
            for (int i = 0; i < r; i++) gsim::prog_add(t, {OP_READ, gsim::gen_int(3), 0, 0});
        }
    }
    for (int t = 1; t < gsim::prog_nthreads(); t++)
        for (int i = 0; i < gsim::prog_len(t); i++)
            if (gsim::prog_op(t, i).code != OP_READ)
                gsim::fail("harness", "only thread 0 may modify");
    State st;
    S = &st;
    {
        gsim::Oracle o;
        st.states.push_back(Vec{1, 2, 3});
    }
    st.lr = gsim::knob("ctor", 0, 1) ? new LR(Vec{1, 2, 3}) : new LR(std::initializer_list<long>{1, 2, 3});
    wl::run_program(body);
    {
        auto h = st.lr->lock_shared();
        Vec f = *h;
        check_value(f, st.completed, "the final read");
    }
    // both copies agree: one more modification must build on the newest state
    {
        int apps = 0;
        {
            gsim::Oracle o;
            Vec next = st.states.back();
            next.push_back(9999);
            st.states.push_back(next);
        }
        st.lr->modify(Push{9999, 0, &apps});
        {
            gsim::Oracle o;
            st.completed = st.states.size() - 1;
        }
        auto h = st.lr->lock_shared();
        Vec f = *h;
        check_value(f, st.completed, "a read after one more modification");
        gsim::probe("lr_mv.final_checked");
    }
    delete st.lr;
    S = nullptr;
}
}  // namespace

GSIM_WORKLOAD(wl_lr_mv, run, OPN)
