// wl_soh — SearchableObjectHolder<Obj, int> (C17): an atomic, memory-safe map
// from unique names to shared objects with type tags.  Histories are checked
// for linearizability against a reference map whose predicate operations are
// nondeterministic (any one matching entry).  mode=throw serves C20.
#include "common.h"
#include "lin.h"

#include <gmlc/concurrency/SearchableObjectHolder.hpp>

#include <algorithm>
#include <map>
#include <set>
#include <string>
#include <vector>

enum {
    OP_ADD = 0,
    OP_ADD_TYPED,
    OP_ADD_TYPE,
    OP_COPY,
    OP_REMOVE_NAME,
    OP_REMOVE_PRED,
    OP_FIND_NAME,
    OP_FIND_PRED,
    OP_FIND_PRED_TYPE,
    OP_CHECK_TYPE,
    OP_GET_OBJECTS,
    OP_EMPTY,
};
static const char* const OPN[] = {"add", "add_typed", "add_type", "copy", "remove_name",
                                  "remove_pred", "find_name", "find_pred", "find_pred_type",
                                  "check_type", "get_objects", "empty"};

namespace {
struct Obj;
struct State {
    std::set<const Obj*> live;
    std::vector<lin::Event> hist;
    std::vector<std::string> results;  // get_objects results (sorted ids), by event index
    bool long_names = false;
    bool throwing = false;
};
State* S;

struct Obj {
    long id;
    long pad;
    explicit Obj(long i): id(i), pad(i)
    {
        gsim::Oracle o;
        if (S) S->live.insert(this);
    }
    ~Obj()
    {
        gsim::Oracle o;
        if (S && !S->live.erase(this))
            gsim::fail("double_destroy", "object %p destroyed twice", (void*)this);
    }
    long get() const
    {
        {
            gsim::Oracle o;
            if (S && !S->live.count(this))
                gsim::fail("dead_object_access", "object at %p returned by the holder has been "
                           "destroyed", (const void*)this);
        }
        if (pad != id) gsim::fail("dead_object_access", "object at %p is corrupt", (const void*)this);
        return id;
    }
};
using SOH = gmlc::concurrency::SearchableObjectHolder<Obj, int>;
using Ptr = std::shared_ptr<Obj>;

std::string name_of(int i)
{
    static const char* shortn[] = {"a", "b", "c"};
    std::string n = shortn[i % 3];
    if (S->long_names) n += "-a-long-object-name-that-does-not-fit-the-small-string-buffer";
    return n;
}

// ------------------------------------------------------------ reference
struct Ref {
    // name index -> object id (0 = absent), tag vector (present flag separately)
    struct St {
        long obj[3] = {0, 0, 0};
        bool has_tags[3] = {false, false, false};
        std::vector<int> tags[3];
        // tags of a name are "unspecified" once something happened that the property
        // does not define (tags added for a name that holds no object, or a name that
        // is created while such tags exist): tag queries for it then accept any answer
        bool unspec[3] = {false, false, false};
    };
    using State = St;
    State initial() const { return St(); }
    std::string key(const State& s) const
    {
        std::string k;
        for (int i = 0; i < 3; i++) {
            k += std::to_string(s.obj[i]) + (s.has_tags[i] ? "T" : "-") + (s.unspec[i] ? "?" : "");
            for (int t : s.tags[i]) k += std::to_string(t);
            k += "|";
        }
        return k;
    }
    static bool has_tag(const State& s, int n, int tag)
    {
        return s.has_tags[n] && std::find(s.tags[n].begin(), s.tags[n].end(), tag) != s.tags[n].end();
    }
    void successors(const State& s, const lin::Event& e, std::vector<State>& out) const
    {
        int n = (int)(e.a % 3);
        switch (e.op) {
            case OP_ADD:
            case OP_ADD_TYPED: {
                // a = name, b = object id, r = success, r2 = tag
                bool fresh = s.obj[n] == 0;
                if ((e.r != 0) != fresh) return;
                State t = s;
                if (fresh) {
                    t.obj[n] = e.b;
                    if (t.has_tags[n]) t.unspec[n] = true;  // created on top of orphan tags
                    if (e.op == OP_ADD_TYPED && !t.has_tags[n]) {
                        t.has_tags[n] = true;
                        t.tags[n] = {(int)e.r2};
                    }
                }
                out.push_back(t);
                return;
            }
            case OP_ADD_TYPE: {
                State t = s;
                if (s.obj[n] == 0) t.unspec[n] = true;  // tags for a name that holds no object
                t.has_tags[n] = true;
                t.tags[n].push_back((int)e.b);
                out.push_back(t);
                return;
            }
            case OP_COPY: {
                int to = (int)(e.b % 3);
                bool ok = s.obj[n] != 0 && s.obj[to] == 0;
                if ((e.r != 0) != ok) return;
                State t = s;
                if (ok) {
                    t.obj[to] = s.obj[n];
                    if (s.unspec[n] || t.has_tags[to]) t.unspec[to] = true;
                    if (s.has_tags[n] && !t.has_tags[to]) {
                        t.has_tags[to] = true;
                        t.tags[to] = s.tags[n];
                    }
                }
                out.push_back(t);
                return;
            }
            case OP_REMOVE_NAME: {
                bool ok = s.obj[n] != 0;
                if ((e.r != 0) != ok) return;
                State t = s;
                if (ok) {
                    t.obj[n] = 0;
                    t.has_tags[n] = false;
                    t.tags[n].clear();
                    t.unspec[n] = false;
                }
                out.push_back(t);
                return;
            }
            case OP_REMOVE_PRED: {
                // a = wanted object id; removes any one entry holding it
                bool any = false;
                for (int i = 0; i < 3; i++)
                    if (s.obj[i] == e.a) {
                        any = true;
                        if (e.r == 0) continue;
                        State t = s;
                        t.obj[i] = 0;
                        t.has_tags[i] = false;
                        t.tags[i].clear();
                        t.unspec[i] = false;
                        out.push_back(t);
                    }
                if (!any && e.r == 0) out.push_back(s);
                return;
            }
            case OP_FIND_NAME:
                if (e.r == s.obj[n]) out.push_back(s);
                return;
            case OP_FIND_PRED: {
                bool any = false;
                for (int i = 0; i < 3; i++)
                    if (s.obj[i] == e.a) any = true;
                if ((any && e.r == e.a) || (!any && e.r == 0)) out.push_back(s);
                return;
            }
            case OP_FIND_PRED_TYPE: {
                bool any = false, maybe = false;
                for (int i = 0; i < 3; i++)
                    if (s.obj[i] == e.a) {
                        if (s.unspec[i]) maybe = true;
                        else if (has_tag(s, i, (int)e.b)) any = true;
                    }
                if ((any && e.r == e.a) || (!any && !maybe && e.r == 0) ||
                    (maybe && (e.r == 0 || e.r == e.a)))
                    out.push_back(s);
                return;
            }
            case OP_CHECK_TYPE:
                if (s.unspec[n] || (e.r != 0) == has_tag(s, n, (int)e.b)) out.push_back(s);
                return;
            case OP_GET_OBJECTS: {
                std::vector<long> ids;
                for (int i = 0; i < 3; i++)
                    if (s.obj[i]) ids.push_back(s.obj[i]);
                std::sort(ids.begin(), ids.end());
                std::string k;
                for (long v : ids) k += std::to_string(v) + ",";
                if (k == S->results[(size_t)e.r2]) out.push_back(s);
                return;
            }
            case OP_EMPTY: {
                bool emp = !s.obj[0] && !s.obj[1] && !s.obj[2];
                if ((e.r != 0) == emp) out.push_back(s);
                return;
            }
            default: out.push_back(s); return;
        }
    }
};

int hbegin(int op, long a, long b)
{
    gsim::Oracle o;
    lin::Event e;
    e.tid = gsim::self();
    e.op = op;
    e.a = a;
    e.b = b;
    e.inv = gsim::seq();
    S->hist.push_back(e);
    return (int)S->hist.size() - 1;
}
void hend(int i, long r, long r2 = 0)
{
    gsim::Oracle o;
    S->hist[(size_t)i].r = r;
    S->hist[(size_t)i].r2 = r2;
    S->hist[(size_t)i].resp = gsim::seq();
}
void hdrop(int i)
{
    gsim::Oracle o;
    S->hist[(size_t)i].op = -1;
}

struct Pred {
    long want;
    bool may_throw;
    bool operator()(const Ptr& p) const
    {
        if (may_throw && gsim::fault_fires(gsim::F_THROW)) throw gsim::injected{60, 0};
        return p && p->get() == want;
    }
};

SOH* H;

void run_op(gsim::Op op, int t, int i)
{
    long newid = 100 * (t + 1) + i + 1;
    std::string name = name_of(op.a);
    int held0 = gsim::held_exclusive();
    bool thr = S->throwing;
    try {
        switch (op.code) {
            case OP_ADD: {
                Ptr p = std::make_shared<Obj>(newid);
                int e = hbegin(OP_ADD, op.a, newid);
                bool r = H->addObject(name, p);
                hend(e, r);
                break;
            }
            case OP_ADD_TYPED: {
                Ptr p = std::make_shared<Obj>(newid);
                int tag = op.c % 3;  // 0 is Y{}: a value-initialised tag is a tag like any other
                int e = hbegin(OP_ADD_TYPED, op.a, newid);
                bool r = H->addObject(name, p, tag);
                hend(e, r, tag);
                break;
            }
            case OP_ADD_TYPE: {
                int tag = op.c % 3;  // 0 is Y{}: a value-initialised tag is a tag like any other
                int e = hbegin(OP_ADD_TYPE, op.a, tag);
                H->addType(name, tag);
                hend(e, 0);
                break;
            }
            case OP_COPY: {
                int e = hbegin(OP_COPY, op.a, op.b % 3);
                bool r = H->copyObject(name, name_of(op.b));
                hend(e, r);
                break;
            }
            case OP_REMOVE_NAME: {
                int e = hbegin(OP_REMOVE_NAME, op.a, 0);
                bool r = H->removeObject(name);
                hend(e, r);
                break;
            }
            case OP_REMOVE_PRED: {
                int e = hbegin(OP_REMOVE_PRED, op.b, 0);
                try {
                    bool r = H->removeObject(Pred{op.b, thr});
                    hend(e, r);
                }
                catch (const gsim::injected&) {
                    hdrop(e);
                    throw;
                }
                break;
            }
            case OP_FIND_NAME: {
                int e = hbegin(OP_FIND_NAME, op.a, 0);
                Ptr p = H->findObject(name);
                hend(e, p ? p->get() : 0);
                for (int y = 0; y < (op.c & 3); y++) gsim::yield();
                if (p) (void)p->get();  // stays alive although it may have been removed
                break;
            }
            case OP_FIND_PRED: {
                int e = hbegin(OP_FIND_PRED, op.b, 0);
                try {
                    Ptr p = H->findObject(Pred{op.b, thr});
                    hend(e, p ? p->get() : 0);
                    for (int y = 0; y < (op.c & 3); y++) gsim::yield();
                    if (p) (void)p->get();
                }
                catch (const gsim::injected&) {
                    hdrop(e);
                    throw;
                }
                break;
            }
            case OP_FIND_PRED_TYPE: {
                int tag = op.c % 3;  // 0 is Y{}: a value-initialised tag is a tag like any other
                int e = hbegin(OP_FIND_PRED_TYPE, op.b, tag);
                try {
                    Ptr p = H->findObject(Pred{op.b, thr}, tag);
                    hend(e, p ? p->get() : 0);
                    if (p) (void)p->get();
                }
                catch (const gsim::injected&) {
                    hdrop(e);
                    throw;
                }
                break;
            }
            case OP_CHECK_TYPE: {
                int tag = op.c % 3;  // 0 is Y{}: a value-initialised tag is a tag like any other
                int e = hbegin(OP_CHECK_TYPE, op.a, tag);
                bool r = static_cast<const SOH*>(H)->checkObjectType(name, tag);
                hend(e, r);
                break;
            }
            case OP_GET_OBJECTS: {
                int e = hbegin(OP_GET_OBJECTS, 0, 0);
                auto v = H->getObjects();
                std::vector<long> ids;
                for (auto& p : v) ids.push_back(p->get());
                gsim::yield();
                for (auto& p : v) (void)p->get();
                std::sort(ids.begin(), ids.end());
                long slot;
                {
                    gsim::Oracle o;
                    std::string k;
                    for (long x : ids) k += std::to_string(x) + ",";
                    S->results.push_back(k);
                    slot = (long)S->results.size() - 1;
                }
                hend(e, 0, slot);
                break;
            }
            case OP_EMPTY: {
                int e = hbegin(OP_EMPTY, 0, 0);
                bool r = H->empty();
                hend(e, r);
                break;
            }
            default: break;
        }
    }
    catch (const gsim::injected&) {
        gsim::Oracle o;
        gsim::probe("soh.predicate_threw");
        if (gsim::held_exclusive() != held0)
            gsim::fail("lock_leaked_on_throw", "a holder operation propagated the predicate's "
                       "exception but left its mutex locked");
    }
}

void body(int t)
{
    int n = gsim::prog_len(t);
    for (int i = 0; i < n; i++) run_op(gsim::prog_op(t, i), t, i);
}

void run()
{
    gsim::check_races(gsim::param_int("races", 0) != 0);
    State st;
    S = &st;
    st.long_names = gsim::knob("long_names", 0, 1) != 0;
    st.throwing = !strcmp(gsim::param("mode", "std"), "throw");
    if (!gsim::prog_loaded()) {
        int single = gsim::gen_int(5) == 0;
        int n = single ? 1 : 2 + gsim::gen_int(2);
        gsim::prog_reset(n);
        long ids[40];
        int nids = 0;
        for (int t = 0; t < n; t++) {
            int k = single ? 2 + gsim::gen_int(10) : 1 + gsim::gen_int(5);
            for (int i = 0; i < k; i++) {
                static const int pool[] = {OP_ADD, OP_ADD, OP_ADD_TYPED, OP_ADD_TYPED, OP_ADD_TYPE,
                                           OP_COPY, OP_COPY, OP_REMOVE_NAME, OP_REMOVE_PRED,
                                           OP_REMOVE_PRED, OP_FIND_NAME, OP_FIND_PRED,
                                           OP_FIND_PRED_TYPE, OP_CHECK_TYPE, OP_GET_OBJECTS, OP_EMPTY};
                int code = pool[gsim::gen_int(16)];
                gsim::Op op{code, gsim::gen_int(3), gsim::gen_int(3), gsim::gen_int(4)};
                if (code == OP_ADD || code == OP_ADD_TYPED) {
                    if (nids < 40) ids[nids++] = 100 * (t + 1) + i + 1;
                }
                if (code == OP_REMOVE_PRED || code == OP_FIND_PRED || code == OP_FIND_PRED_TYPE)
                    op.b = nids ? (int)ids[gsim::gen_int(nids)] : 101;
                gsim::prog_add(t, op);
            }
        }
    }
    if (st.throwing) gsim::enable_fault(gsim::F_THROW, 100 + gsim::knob("throw", 0, 2) * 150);
    H = new SOH();
    wl::run_program(body);
    gsim::faults_off();
    st.throwing = false;
    // ---- linearizability
    {
        gsim::Oracle o;
        std::vector<lin::Event> evs;
        for (auto& e : st.hist)
            if (e.op >= 0) evs.push_back(e);
        if (evs.size() <= 20) {
            Ref m;
            lin::Checker<Ref> chk(m, evs);
            if (!chk.check()) {
                std::string d;
                for (auto& e : evs) {
                    char buf[128];
                    snprintf(buf, sizeof buf, "[T%d %s(%ld,%ld)->%ld @%llu..%llu] ", e.tid, OPN[e.op],
                             e.a, e.b, e.r, (unsigned long long)e.inv, (unsigned long long)e.resp);
                    d += buf;
                }
                gsim::fail("not_linearizable", "no sequential map history explains: %s", d.c_str());
            }
            gsim::probe("soh.lin_checked");
        }
    }
    // usually empty the holder first; sometimes destroy it with entries left (its
    // destructor then waits a bounded number of times and lets go of the objects)
    if (gsim::knob("destroy_nonempty", 0, 3) != 0) {
        for (int i = 0; i < 3; i++) H->removeObject(name_of(i));
        if (!H->empty())
            gsim::fail("not_linearizable", "holder not empty after removing every name");
    } else
        gsim::probe("soh.destroyed_nonempty");
    delete H;
    H = nullptr;
    {
        gsim::Oracle o;
        if (!st.live.empty())
            gsim::fail("leak", "%zu objects are still alive after the holder was emptied and "
                       "destroyed", st.live.size());
    }
    S = nullptr;
}
}  // namespace

GSIM_WORKLOAD(wl_soh, run, OPN)
