// Wing–Gong linearizability search with memoisation over
// (set of linearised operations, model state).  Histories are short (<= 20).
// Events carry invoke/response stamps taken from the simulator's global event
// sequence number.  An event with resp == PENDING never returned (or its effect
// is allowed to be absent): it may be linearised anywhere after its invocation
// or not at all.
#pragma once
#include "../sim/gsim.h"

#include <cstdint>
#include <set>
#include <string>
#include <type_traits>
#include <utility>
#include <vector>

namespace lin {

constexpr uint64_t PENDING = ~0ull;

struct Event {
    int tid = 0;
    int op = 0;
    long a = 0, b = 0;  // arguments
    long r = 0, r2 = 0;  // results
    uint64_t inv = 0, resp = PENDING;
    bool optional = false;  // may be dropped from the linearisation
};

/// Model requirements:
///   using State = ...;            (copyable)
///   State initial();
///   std::string key(const State&);           (memo key)
///   either  bool apply(State&, const Event&) const;  (false: result inconsistent)
///   or      void successors(const State&, const Event&, std::vector<State>&) const;
///           (nondeterministic specification: every state the operation may
///            lead to given its observed result; empty = inconsistent)
template<class M, class = void>
struct has_successors: std::false_type {};
template<class M>
struct has_successors<M, std::void_t<decltype(std::declval<const M&>().successors(
                             std::declval<const typename M::State&>(), std::declval<const Event&>(),
                             std::declval<std::vector<typename M::State>&>()))>>: std::true_type {};

template<class Model>
class Checker {
  public:
    Checker(const Model& m, const std::vector<Event>& ev): model(m), evs(ev) {}
    bool check()
    {
        typename Model::State s = model.initial();
        return dfs(0, s);
    }
    /// index order of a witness (valid after check() returned true)
    std::vector<int> witness;

  private:
    const Model& model;
    const std::vector<Event>& evs;
    std::set<std::pair<uint32_t, std::string>> dead;

    bool dfs(uint32_t done, const typename Model::State& st)
    {
        const int n = (int)evs.size();
        bool all = true;
        for (int i = 0; i < n; i++)
            if (!(done & (1u << i)) && !(evs[i].optional || evs[i].resp == PENDING)) all = false;
        if (all) return true;
        auto k = std::make_pair(done, model.key(st));
        if (dead.count(k)) return false;
        for (int i = 0; i < n; i++) {
            if (done & (1u << i)) continue;
            bool blocked = false;  // some other pending op returned before this one began
            for (int j = 0; j < n && !blocked; j++)
                if (j != i && !(done & (1u << j)) && !evs[j].optional &&
                    evs[j].resp != PENDING && evs[j].resp <= evs[i].inv)
                    blocked = true;
            if (blocked) continue;
            std::vector<typename Model::State> next;
            if constexpr (has_successors<Model>::value) {
                model.successors(st, evs[i], next);
            } else {
                typename Model::State s2 = st;
                if (model.apply(s2, evs[i])) next.push_back(s2);
            }
            for (auto& s2 : next) {
                witness.push_back(i);
                if (dfs(done | (1u << i), s2)) return true;
                witness.pop_back();
            }
        }
        dead.insert(k);
        return false;
    }
};

}  // namespace lin
