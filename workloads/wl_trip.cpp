// wl_trip — TripWire (C19): a line is one-way and per line, moving a trigger
// transfers the duty, and everything written before the trigger was destroyed
// is visible to whoever saw the line tripped.  mode=static uses the declared
// and indexed process-wide lines (each run in a fresh forked child).
#include "common.h"

#include <gmlc/concurrency/TripWire.hpp>

#include <memory>
#include <stdexcept>
#include <vector>

#ifdef WL_TRIP_EARLY
// A user object that is constructed during static initialisation — defined ABOVE the
// declaration of the trip line, so before any namespace-scope object that declaration
// might introduce — and owns a default trigger (a "shutdown guard").  The declared line
// must exist whenever it is first asked for.
namespace {
struct EarlyUser {
    std::unique_ptr<gmlc::concurrency::TripWireTrigger> trig;
    EarlyUser(): trig(new gmlc::concurrency::TripWireTrigger()) {}
};
EarlyUser g_early;
}  // namespace
#endif

DECLARE_TRIPLINE()
DECLARE_INDEXED_TRIPLINES(4)

enum { OP_TRIGGER = 0, OP_DETECT, OP_BAD_INDEX };
static const char* const OPN[] = {"trigger", "detect", "bad_index"};

namespace {
using namespace gmlc::concurrency;
constexpr int MAXL = 5;

struct State {
    bool is_static = false;
    int nlines = 1;
    std::vector<TriplineType> lines;  // explicit mode
    // explicit mode with knob handover=1: the creator gives its references away before the
    // threads start — triggers are made up front, detectors are copies of a prototype — so
    // that the trigger may be the last owner that can write the flag: a detector must keep
    // the line alive by itself and still report "tripped" afterwards
    bool handover = false;
    std::vector<std::unique_ptr<TripWireTrigger>> pre_trigger;
    std::vector<TripWireDetector> proto;
    // one detector object per line that several threads poll concurrently (isTripped() is
    // const; SearchableObjectHolder itself polls one detector member from all its callers)
    std::vector<TripWireDetector> shared_det;
    long datum[MAXL] = {0};  // plain data published by the trigger thread
    // oracle
    bool destroy_begun[MAXL] = {false};
    bool destroy_done[MAXL] = {false};
};
State* S;

std::unique_ptr<TripWireTrigger> make_trigger(int line)
{
    if (S->handover) {
        if (!S->pre_trigger[(size_t)line]) gsim::fail("harness", "two triggers on one line");
        return std::move(S->pre_trigger[(size_t)line]);
    }
    if (!S->is_static) return std::make_unique<TripWireTrigger>(S->lines[(size_t)line]);
#ifdef WL_TRIP_EARLY
    if (line == 0 && g_early.trig) {
        gsim::probe("trip.trigger_made_during_static_initialisation");
        return std::move(g_early.trig);
    }
#endif
    if (line == 0) return std::make_unique<TripWireTrigger>();
    return std::make_unique<TripWireTrigger>((unsigned)(line - 1));
}
TripWireDetector make_detector(int line)
{
    if (S->handover) return S->proto[(size_t)line];
    if (!S->is_static) return TripWireDetector(S->lines[(size_t)line]);
    if (line == 0) return TripWireDetector();
    return TripWireDetector((unsigned)(line - 1));
}

void begun(int line)
{
    gsim::Oracle o;
    S->destroy_begun[line] = true;
}
void done(int line)
{
    gsim::Oracle o;
    S->destroy_done[line] = true;
}

void do_trigger(gsim::Op op)
{
    int line = op.a % S->nlines;
    auto t = make_trigger(line);
    for (int y = 0; y < op.c; y++) gsim::yield();
    S->datum[line] = 42 + line;  // plain write, published by the trigger's destruction
    if (op.b % 6 == 5) {
        // move-assignment between two live triggers on two private lines: the
        // moved-from object's destruction must not trip anything, the target now
        // carries the source's duty
        auto lx = make_tripline();
        auto ly = make_tripline();
        TripWireDetector dx(lx), dy(ly);
        auto keeper = std::make_unique<TripWireTrigger>(lx);
        auto temp = std::make_unique<TripWireTrigger>(ly);
        if (op.c & 1) {
            // the creator lets go of its own references: detectors and triggers are on their own
            lx.reset();
            ly.reset();
        }
        *keeper = std::move(*temp);
        bool x0 = dx.isTripped(), y0 = dy.isTripped();
        temp.reset();
        if (dx.isTripped() != x0 || dy.isTripped() != y0)
            gsim::fail("moved_from_tripped", "destroying a moved-from trigger (after a move "
                       "assignment) tripped a line");
        keeper.reset();
        if (!dy.isTripped())
            gsim::fail("not_tripped", "the target of a move assignment did not trip the source's "
                       "line when it was destroyed");
        gsim::probe("trip.move_assign_between_live_triggers");
    }
    if (op.b % 7 == 6) {
        // self-move-assignment (a compaction loop with dst == src): the object keeps its duty
        TripWireTrigger& self = *t;
        *t = std::move(self);
        gsim::probe("trip.self_move_assignment");
    }
    switch (op.b % 5) {
        case 0:  // plain destruction
            begun(line);
            t.reset();
            done(line);
            break;
        case 1: {  // move-construct, destroy the moved-from object first
            auto t2 = std::make_unique<TripWireTrigger>(std::move(*t));
            t.reset();  // moved-from: must be harmless and trip nothing
            gsim::yield();
            begun(line);
            t2.reset();
            done(line);
            break;
        }
        case 2: {  // move-construct, destroy the new object first
            auto t2 = std::make_unique<TripWireTrigger>(std::move(*t));
            begun(line);
            t2.reset();
            done(line);
            gsim::yield();
            t.reset();
            break;
        }
        case 3: {  // move-assign into a trigger that was itself moved from
            auto t2 = std::make_unique<TripWireTrigger>(std::move(*t));
            *t = std::move(*t2);  // duty back in *t; *t2 is moved-from
            t2.reset();
            gsim::yield();
            begun(line);
            t.reset();
            done(line);
            break;
        }
        default: {  // chain of two moves
            auto t2 = std::make_unique<TripWireTrigger>(std::move(*t));
            auto t3 = std::make_unique<TripWireTrigger>(std::move(*t2));
            t.reset();
            t2.reset();
            begun(line);
            t3.reset();
            done(line);
            break;
        }
    }
}

void do_detect(gsim::Op op)
{
    int line = op.a % S->nlines;
    TripWireDetector own = make_detector(line);
    const bool use_shared = (op.c & 4) != 0 && !S->shared_det.empty();
    const TripWireDetector& d = use_shared ? S->shared_det[(size_t)line] : own;
    if (use_shared) gsim::probe("trip.shared_detector_polled");
    int polls = 1 + op.b % 6;
    bool seen = false;
    for (int i = 0; i < polls; i++) {
        bool t = d.isTripped();
        {
            gsim::Oracle o;
            if (t && !S->destroy_begun[line])
                gsim::fail("tripped_early", "line %d reports tripped but the trigger holding the "
                           "duty has not been destroyed", line);
            if (!t && seen)
                gsim::fail("untripped", "line %d went back from tripped to not tripped", line);
        }
        if (t && !seen) {
            seen = true;
            long v = S->datum[line];  // must be race-free and hold the published value
            if (v != 42 + line)
                gsim::fail("stale_publication", "line %d is tripped but the datum written before "
                           "the trigger was destroyed reads %ld", line, v);
            gsim::probe("trip.detector_saw_trip");
        }
        for (int y = 0; y <= (op.c & 3) % 3; y++) gsim::yield();
    }
}

void do_bad_index(gsim::Op op)
{
    if (!S->is_static) return;
    // just past the end, and values that turn negative / wrap if somebody converts them
    static const unsigned big[] = {0x7fffffffu, 0x80000000u, 0xffffffffu, 0x80000004u};
    unsigned idx = (op.b & 2) ? big[op.a % 4] : 4u + (unsigned)(op.a % 4);
    bool threw = false;
    try {
        if (op.b & 1) {
            TripWireDetector d(idx);
            (void)d;
        } else {
            TripWireTrigger t(idx);
            (void)t;
        }
    }
    catch (const std::out_of_range&) {
        threw = true;
    }
    if (!threw) gsim::fail("bad_index_accepted", "index %u was accepted", idx);
    gsim::probe("trip.bad_index_rejected");
}

void body(int t)
{
    int n = gsim::prog_len(t);
    for (int i = 0; i < n; i++) {
        gsim::Op op = gsim::prog_op(t, i);
        if (op.code == OP_TRIGGER) do_trigger(op);
        else if (op.code == OP_DETECT) do_detect(op);
        else do_bad_index(op);
    }
}

void run()
{
    // C19 scores publication: the happens-before detector is part of this check
    gsim::check_races(gsim::param_int("races", 1) != 0);
    State st;
    S = &st;
    st.is_static = !strcmp(gsim::param("mode", "explicit"), "static");
    st.nlines = st.is_static ? 5 : gsim::knob("lines", 1, 3);
    if (!gsim::prog_loaded()) {
        int n = 2 + gsim::gen_int(4);
        gsim::prog_reset(n);
        bool triggered[MAXL] = {false};
        for (int t = 0; t < n; t++) {
            int role = gsim::gen_int(3);
            int k = 1 + gsim::gen_int(2);
            for (int i = 0; i < k; i++) {
                int line = gsim::gen_int(st.nlines);
                if (role == 0 && !triggered[line]) {
                    // at most one duty-holder per line: "the first trigger destroyed" is then unambiguous
                    triggered[line] = true;
                    gsim::prog_add(t, {OP_TRIGGER, line, gsim::gen_int(30), gsim::gen_int(3)});
                } else if (st.is_static && gsim::gen_int(8) == 0) {
                    gsim::prog_add(t, {OP_BAD_INDEX, gsim::gen_int(4), gsim::gen_int(4), 0});
                } else {
                    gsim::prog_add(t, {OP_DETECT, line, gsim::gen_int(6), gsim::gen_int(3) | (gsim::gen_int(3) == 0 ? 4 : 0)});
                }
            }
        }
    }
    // validate: one trigger op per line at most
    {
        int cnt[MAXL] = {0};
        for (int t = 0; t < gsim::prog_nthreads(); t++)
            for (int i = 0; i < gsim::prog_len(t); i++) {
                gsim::Op op = gsim::prog_op(t, i);
                if (op.code == OP_TRIGGER && ++cnt[op.a % st.nlines] > 1)
                    gsim::fail("harness", "two triggers on one line");
            }
    }
    gsim::enable_fault(gsim::F_STALE_READ, gsim::knob("stale", 0, 2) * 200);
    if (!st.is_static) {
        gsim::Oracle o;
        if (gsim::knob("make_many", 0, 1)) st.lines = make_triplines(st.nlines);
        else
            for (int i = 0; i < st.nlines; i++) st.lines.push_back(make_tripline());
        if (gsim::knob("handover", 0, 1)) {
            bool used[MAXL] = {false};
            for (int t = 0; t < gsim::prog_nthreads(); t++)
                for (int i = 0; i < gsim::prog_len(t); i++)
                    if (gsim::prog_op(t, i).code == OP_TRIGGER) used[gsim::prog_op(t, i).a % st.nlines] = true;
            for (int i = 0; i < st.nlines; i++) {
                st.proto.emplace_back(st.lines[(size_t)i]);
                st.pre_trigger.push_back(used[i] ? std::make_unique<TripWireTrigger>(st.lines[(size_t)i])
                                                 : nullptr);
            }
            st.lines.clear();
            st.handover = true;
            gsim::probe("trip.creator_handed_over");
        }
    }
    if (!st.is_static) {
        // (not for the static lines: touching them here would pre-empt their first use by
        // the threads, which is part of what the static mode examines)
        gsim::Oracle o;
        for (int i = 0; i < st.nlines; i++) st.shared_det.push_back(make_detector(i));
    }
    wl::run_program(body);
    gsim::faults_off();
    // after join every destroyed line is tripped for thread 0, every other line is not
    for (int l = 0; l < st.nlines; l++) {
        TripWireDetector d = make_detector(l);
        bool t = d.isTripped();
        bool want;
        {
            gsim::Oracle o;
            want = st.destroy_done[l];
        }
        if (want && !t)
            gsim::fail("not_tripped", "line %d is not tripped after its trigger was destroyed", l);
        if (!want && t)
            gsim::fail("tripped_early", "line %d is tripped but no trigger holding its duty was "
                       "destroyed (another line's trigger tripped it?)", l);
        if (t && st.datum[l] != 42 + l)
            gsim::fail("stale_publication", "datum of line %d reads %ld", l, st.datum[l]);
    }
    {
        gsim::Oracle o;
        st.lines.clear();
        st.proto.clear();
        st.shared_det.clear();
        st.pre_trigger.clear();
    }
    S = nullptr;
}
}  // namespace

#ifdef WL_TRIP_EARLY
GSIM_WORKLOAD(wl_trip_early, run, OPN)
#else
GSIM_WORKLOAD(wl_trip, run, OPN)
#endif
