// wl_shared_guarded — shared_guarded<Cell, M> for M in {mutex, timed_mutex, shared_mutex, shared_timed_mutex}
#include "guard_harness.h"

#include <gmlc/libguarded/shared_guarded.hpp>

namespace gh {
template<class M>
struct Traits<gmlc::libguarded::shared_guarded<Cell, M>> {
    using W = gmlc::libguarded::shared_guarded<Cell, M>;
    using mutex_type = M;
    static constexpr const char* name = "shared_guarded";
    static constexpr bool is_opt = false;
    static constexpr bool has_convert = false;
    static constexpr bool strict_try = true;
    static W* make(bool enabled)
    {
        (void)enabled;
        // built from nothing, from an rvalue or from an lvalue of the payload
        switch (gsim::knob("ctor", 0, 2)) {
            case 1: return new W(Cell(0));
            case 2: {
                Cell init(0);
                return new W(init);
            }
            default: return new W();
        }
    }
};
}  // namespace gh

static void run()
{
    gsim::check_races(gsim::param_int("races", 0) != 0);
    gh::run_all_mutexes<gmlc::libguarded::shared_guarded>();
}
GSIM_WORKLOAD(wl_shared_guarded, run, gh::OPN)
