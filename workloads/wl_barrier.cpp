// wl_barrier — gmlc::concurrency::Barrier (C09): no thread returns from its
// n-th wait before all current participants have made their n-th arrival;
// wait_and_drop lowers the requirement of every later generation; no lost
// wake-up, also with spurious wake-ups and fast threads lapping slow ones.
#include "common.h"

#include <gmlc/concurrency/Barrier.hpp>

#include <chrono>
#include <thread>

enum { OP_WAIT = 0, OP_WAIT_DROP };
static const char* const OPN[] = {"wait", "wait_and_drop"};

namespace {
struct State {
    gmlc::concurrency::Barrier* bar;
    int nthreads = 0;
    int nthreads_prog = 0;
    int arrived[16] = {0};
    int required[16] = {0};
    long slot[gsim::MAX_THREADS][16] = {{0}};  // plain data: slot[t][g] written before arrival g
    int len[gsim::MAX_THREADS] = {0};
};
State* S;

void body(int t)
{
    int n = gsim::prog_len(t);
    for (int i = 0; i < n; i++) {
        gsim::Op op = gsim::prog_op(t, i);
        int gen = i + 1;
        {
            gsim::Oracle o;
            S->arrived[gen]++;
        }
        for (int y = 0; y < op.a; y++) gsim::yield();
        // a slow participant: arrives long (in simulated time) after the others began to wait
        if (op.b == 1) std::this_thread::sleep_for(std::chrono::milliseconds(100));
        else if (op.b == 2) std::this_thread::sleep_for(std::chrono::seconds(3));
        else if (op.b == 3) std::this_thread::sleep_for(std::chrono::hours(2));
        S->slot[t][gen] = 100 * gen + t;
        if (op.code == OP_WAIT_DROP) S->bar->wait_and_drop();
        else S->bar->wait();
        // everything the other participants wrote before this generation is visible
        for (int u = 0; u < S->nthreads_prog; u++)
            if (u != t && S->len[u] >= gen && S->slot[u][gen] != 100 * gen + u)
                gsim::fail("stale_publication", "after generation %d thread %d reads %ld from the "
                           "slot participant %d wrote before arriving", gen, t, S->slot[u][gen], u);
        {
            gsim::Oracle o;
            if (S->arrived[gen] < S->required[gen])
                gsim::fail("early_release", "thread %d returned from its arrival #%d when only %d "
                           "of the %d current participants had arrived", gsim::self(), gen,
                           S->arrived[gen], S->required[gen]);
            if (gsim::held_exclusive())
                gsim::fail("leaked_lock", "barrier wait returned with a mutex held");
        }
    }
}

void run()
{
    gsim::check_races(gsim::param_int("races", 0) != 0);
    if (!gsim::prog_loaded()) {
        int n = gsim::gen_int(8) == 0 ? 1 : 2 + gsim::gen_int(4);  // a barrier of one never waits
        int G = 1 + gsim::gen_int(4);
        gsim::prog_reset(n);
        bool any_stayer = false;
        for (int t = 0; t < n; t++) {
            int drop = gsim::gen_int(3) == 0 ? 1 + gsim::gen_int(G) : 0;  // generation of the drop
            if (t == n - 1 && !any_stayer && G > 1) drop = 0;
            int len = drop ? drop : G;
            if (!drop) any_stayer = true;
            for (int i = 0; i < len; i++)
                gsim::prog_add(t, {drop && i == len - 1 ? OP_WAIT_DROP : OP_WAIT,
                                   gsim::gen_int(3) == 0 ? 1 + gsim::gen_int(2) : 0,
                                   gsim::gen_int(5) == 0 ? 1 + gsim::gen_int(3) : 0, 0});
        }
    }
    // ---- validate (the minimiser may have produced an unbalanced program)
    State st;
    S = &st;
    int n = gsim::prog_nthreads();
    int G = 0, N = 0;
    st.nthreads_prog = n;
    for (int t = 0; t < n; t++) {
        int len = gsim::prog_len(t);
        st.len[t] = len;
        if (len > 12) gsim::fail("harness", "too many generations");
        if (len) N++;
        for (int i = 0; i + 1 < len; i++)
            if (gsim::prog_op(t, i).code == OP_WAIT_DROP)
                gsim::fail("harness", "wait_and_drop must be a thread's last op");
        if (len > G) G = len;
    }
    for (int t = 0; t < n; t++) {
        int len = gsim::prog_len(t);
        if (!len) continue;
        bool drops = gsim::prog_op(t, len - 1).code == OP_WAIT_DROP;
        if (!drops && len != G)
            gsim::fail("harness", "a thread that never drops must take part in every generation");
    }
    if (N == 0) {
        S = nullptr;
        return;
    }
    for (int g = 1; g <= G; g++) {
        int req = 0;
        for (int t = 0; t < n; t++) {
            int len = gsim::prog_len(t);
            if (len >= g) req++;
        }
        st.required[g] = req;
    }
    gsim::enable_fault(gsim::F_SPURIOUS_WAKE, gsim::knob("spurious", 0, 2) * 150);
    // clock jumps at timed waits (the unchanged Barrier has none; a rewrite with timed waits must
    // still not release early)
    gsim::enable_fault(gsim::F_TIME_JUMP, gsim::knob("time_jump", 0, 2) * 30);
    st.nthreads = N;
    st.bar = new gmlc::concurrency::Barrier((size_t)N);
    wl::run_program(body);
    delete st.bar;
    S = nullptr;
}
}  // namespace

GSIM_WORKLOAD(wl_barrier, run, OPN)
