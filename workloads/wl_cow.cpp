// wl_cow — cow_guarded<CV, M> (C04): snapshots are immutable and stay valid,
// writers are serialised from lock() to release, commits are atomic and never
// lost, cancel() discards.  mode=freeze serves C14, mode=throw C20, races=1 C07.
#include "common.h"

#include <gmlc/libguarded/cow_guarded.hpp>

#include <chrono>
#include <initializer_list>
#include <set>

using wl::Cell;

enum { OP_WRITE = 0, OP_WRITE_CANCEL, OP_WRITE_MOVE, OP_SNAPSHOT, OP_WRITE_THROW, OP_WRITE_UNWIND };
static const char* const OPN[] = {"write", "write_cancel", "write_move", "snapshot", "write_throw",
                                  "write_unwind"};

namespace {
struct State {
    std::set<const void*> live;
    long constructed = 0, destroyed = 0;
    int commits_started = 0, commits_done = 0;
    bool throw_copy = false;
    bool freeze_allowed = true;
    bool writer_done = false;
};
State* S;

struct CV {
    Cell c;
    CV() { reg(); }
    CV(const CV& o): c(maybe_throw(o).c) { reg(); }
    CV& operator=(const CV&) = delete;
    ~CV()
    {
        gsim::Oracle o;
        if (!S) return;
        if (!S->live.erase(this))
            gsim::fail("double_destroy", "value object at %p destroyed twice", (void*)this);
        S->destroyed++;
    }
    static const CV& maybe_throw(const CV& o)
    {
        bool t;
        {
            gsim::Oracle or_;
            t = S && S->throw_copy;
        }
        if (t && gsim::fault_fires(gsim::F_THROW)) throw gsim::injected{50, 0};
        return o;
    }
    void reg()
    {
        gsim::Oracle o;
        if (!S) return;
        S->live.insert(this);
        S->constructed++;
    }
    void alive() const
    {
        gsim::Oracle o;
        if (S && !S->live.count(this))
            gsim::fail("dead_object_access", "snapshot at %p has been destroyed", (const void*)this);
    }
};

/// an element type with an initializer_list constructor whose element type is
/// constructible from the type itself (think of JSON-like values or
/// std::vector<std::any>): copy-initialising it with braces would not copy
struct CVL: CV {
    struct Item {
        Item(const CVL&) {}
    };
    CVL() = default;
    CVL(const CVL&) = default;
    CVL(std::initializer_list<Item>)
    {
        for (int i = 0; i < Cell::MAXW; i++) c.w[i] = -4242;  // "a list holding the old value"
    }
};

template<class M, class CVT = CV>
struct WL {
    using COW = gmlc::libguarded::cow_guarded<CVT, M>;
    COW* cow;

    typename COW::shared_handle snap(int form)
    {
        using namespace std::chrono_literals;
        const COW& c = *cow;
        switch (form & 3) {
            case 1: return c.try_lock_shared();
            case 2: return c.try_lock_shared_for(5ms);
            case 3: return c.try_lock_shared_until(std::chrono::steady_clock::now() + 5ms);
            default: return c.lock_shared();
        }
    }

    /// releasing the handle (reset) frees the writer lock at once — not when the emptied
    /// handle object happens to go out of scope
    void released_now(int held0)
    {
        if (gsim::held_exclusive() != held0)
            gsim::fail("release_keeps_lock", "the write handle was released (reset) and its value "
                       "published, but the writer lock is still held while the empty handle "
                       "object is alive");
        for (int y = 0; y < 2; y++) gsim::yield();  // others may lock meanwhile
    }
    void do_write(gsim::Op op)
    {
        int held0 = gsim::held_exclusive();
        bool threw = false;
        try {
            auto h = cow->lock();
            if (!h) gsim::fail("null_handle", "lock() returned a null write handle");
            long v = h->c.read();
            {
                gsim::Oracle o;
                if (v != S->commits_started)
                    gsim::fail("stale_write_copy", "write handle starts from value %ld but %d "
                               "commits had been released before lock() returned", v,
                               S->commits_started);
            }
            h->c.rmw_add(1, op.a);
            if (op.code == OP_WRITE_CANCEL) {
                h.cancel();
                if (h) gsim::fail("cancel_not_null", "handle tests true after cancel()");
                if (gsim::held_exclusive() != held0)
                    gsim::fail("cancel_keeps_lock", "cancel() did not release the writer lock");
                gsim::probe("cow.cancelled");
            } else if (op.code == OP_WRITE_MOVE) {
                typename COW::handle h2(std::move(h));
                for (int y = 0; y < op.b; y++) gsim::yield();
                {
                    gsim::Oracle o;
                    S->commits_started++;
                }
                h2.reset();
                released_now(held0);
                gsim::Oracle o;
                S->commits_done++;
            } else {
                for (int y = 0; y < op.b; y++) gsim::yield();
                {
                    gsim::Oracle o;
                    S->commits_started++;
                }
                h.reset();
                released_now(held0);
                gsim::Oracle o;
                S->commits_done++;
            }
        }
        catch (const gsim::injected&) {
            threw = true;
            gsim::probe("cow.lock_copy_threw");
        }
        if (gsim::held_exclusive() != held0)
            gsim::fail(threw ? "lock_leaked_on_throw" : "leaked_lock",
                       "a write operation returned with the writer lock still held");
    }

    /// a commit made from a destructor that runs while an unrelated exception is
    /// unwinding the stack (clean-up code that records something): releasing the
    /// handle must publish exactly as it does anywhere else
    struct UnwindCommitter {
        WL* w;
        gsim::Op op;
        ~UnwindCommitter()
        {
            gsim::Op o2 = op;
            o2.code = OP_WRITE;
            try {
                w->do_write(o2);
            }
            catch (...) {
            }
        }
    };
    void do_write_unwind(gsim::Op op)
    {
        try {
            UnwindCommitter c{this, op};
            gsim::yield();
            throw gsim::injected{55, 0};
        }
        catch (const gsim::injected&) {
            gsim::probe("cow.commit_during_unwinding");
        }
    }

    void do_snapshot(gsim::Op op)
    {
        int lo;
        {
            gsim::Oracle o;
            lo = S->commits_done;
        }
        auto s = snap(op.a);
        if (!s) {
            gsim::probe("cow.null_snapshot");
            return;
        }
        s->alive();
        long v = s->c.read();
        {
            gsim::Oracle o;
            if (v < lo)
                gsim::fail("stale_read", "snapshot holds %ld but %d commits had been released "
                           "before lock_shared was called", v, lo);
            if (v > S->commits_started)
                gsim::fail("future_read", "snapshot holds %ld but only %d commits were released",
                           v, S->commits_started);
        }
        // keep it across later commits
        int target;
        {
            gsim::Oracle o;
            target = S->commits_done + (op.b % 4);
        }
        for (int y = 0; y < 12; y++) {
            bool enough;
            {
                gsim::Oracle o;
                enough = S->commits_done >= target;
            }
            if (enough) break;
            gsim::yield();
        }
        s->alive();
        long v2 = s->c.read();
        if (v2 != v)
            gsim::fail("snapshot_mutated", "a held snapshot changed from %ld to %ld", v, v2);
        {
            gsim::Oracle o;
            if (S->commits_done > (int)v) gsim::probe("cow.snapshot_outlived_commit");
        }
    }

    void body(int t)
    {
        int n = gsim::prog_len(t);
        for (int i = 0; i < n; i++) {
            gsim::Op op = gsim::prog_op(t, i);
            if (op.code == OP_SNAPSHOT) do_snapshot(op);
            else if (op.code == OP_WRITE_UNWIND) do_write_unwind(op);
            else do_write(op);
        }
    }
    struct Body {
        WL* w;
        void operator()(int t) { w->body(t); }
    };

    static void gen(bool with_throw)
    {
        int nw = 1 + gsim::gen_int(2), nr = 1 + gsim::gen_int(3);
        gsim::prog_reset(nw + nr);
        for (int t = 0; t < nw; t++) {
            int k = 1 + gsim::gen_int(3 + (gsim::thorough() ? 2 : 0));
            for (int i = 0; i < k; i++) {
                int r = gsim::gen_int(10);
                int code = r < 5 ? OP_WRITE : r < 7 ? OP_WRITE_CANCEL : r < 9 ? OP_WRITE_MOVE : OP_WRITE_UNWIND;
                (void)with_throw;
                gsim::prog_add(t, {code, gsim::gen_int(3) == 0 ? 1 : 0, gsim::gen_int(3), 0});
            }
            if (gsim::gen_int(4) == 0) gsim::prog_add(t, {OP_SNAPSHOT, gsim::gen_int(4), gsim::gen_int(4), 0});
        }
        for (int t = nw; t < nw + nr; t++) {
            int k = 1 + gsim::gen_int(3);
            for (int i = 0; i < k; i++)
                gsim::prog_add(t, {OP_SNAPSHOT, gsim::gen_int(4), gsim::gen_int(4), 0});
        }
    }

    // C14: writer frozen at its k-th step (inside lock(), the private update, or
    // the commit); readers must complete snapshots meanwhile
    struct FArg {
        WL* w;
        int t;
    };
    static void fwriter(void* p)
    {
        FArg* a = (FArg*)p;
        int k = gsim::knob("freeze_k", 0, 60);
        {
            gsim::Oracle o;
            if (S->freeze_allowed) gsim::freeze_arm(gsim::self(), k);
        }
        a->w->body(a->t);
        gsim::freeze_disarm(gsim::self());
        gsim::Oracle o;
        S->writer_done = true;
    }
    static void freader(void* p)
    {
        FArg* a = (FArg*)p;
        a->w->body(a->t);
        gsim::ctr_add(1, 1);
    }
    void run_freeze()
    {
        int n = gsim::prog_nthreads();
        if (n < 1) return;
        FArg args[gsim::MAX_THREADS];
        int tids[gsim::MAX_THREADS];
        args[0] = FArg{this, 0};
        tids[0] = gsim::spawn(fwriter, &args[0]);
        // the readers start once the writer is parked (or has finished early)
        for (;;) {
            bool done;
            {
                gsim::Oracle o;
                done = S->writer_done;
            }
            if (done || gsim::is_frozen(tids[0])) break;
            gsim::yield();
        }
        for (int t = 1; t < n; t++) {
            args[t] = FArg{this, t};
            tids[t] = gsim::spawn(freader, &args[t]);
        }
        gsim::ctr_wait_ge(1, n - 1);
        if (gsim::is_frozen(tids[0])) gsim::probe("cow.readers_completed_while_writer_frozen");
        else gsim::probe("cow.writer_not_frozen");
        {
            gsim::Oracle o;
            S->freeze_allowed = false;
        }
        gsim::thaw(tids[0]);
        gsim::freeze_disarm(tids[0]);
        for (int t = 0; t < n; t++) gsim::join(tids[t]);
    }

    void run(const char* mode)
    {
        State st;
        S = &st;
        bool freeze = !strcmp(mode, "freeze");
        bool with_throw = !strcmp(mode, "throw");
        Cell::W = gsim::knob("W", 1, 3);
        Cell::tracked = nullptr;
        if (!gsim::prog_loaded()) {
            if (freeze) {
                int n = 2 + gsim::gen_int(2);
                gsim::prog_reset(n);
                int k = 1 + gsim::gen_int(2);
                for (int i = 0; i < k; i++)
                    gsim::prog_add(0, {gsim::gen_int(4) == 0 ? OP_WRITE_CANCEL : OP_WRITE, 0, 0, 0});
                for (int t = 1; t < n; t++) {
                    int r = 1 + gsim::gen_int(2);
                    for (int i = 0; i < r; i++) gsim::prog_add(t, {OP_SNAPSHOT, gsim::gen_int(4), 0, 0});
                }
            } else
                gen(with_throw);
        }
        gsim::enable_fault(gsim::F_STALE_READ, gsim::knob("stale", 0, 1) * 200);
        if (with_throw) {
            gsim::enable_fault(gsim::F_THROW, 150 + gsim::knob("throw", 0, 2) * 150);
        }
        // address diversity: the object's address decides e.g. which of libstdc++'s pooled
        // mutexes a std::atomic_load/atomic_store(shared_ptr*) would take
        {
            int pad = gsim::knob("pad", 0, 255);
            static void* volatile sink;
            for (int i = 0; i < pad; i++) sink = ::operator new(16);  // arena memory, reclaimed with the run
        }
        cow = new COW();
        st.throw_copy = with_throw;
        if (freeze) run_freeze();
        else {
            Body b{this};
            wl::run_program(b);
        }
        st.throw_copy = false;
        gsim::faults_off();
        {
            auto s = static_cast<const COW*>(cow)->lock_shared();
            long v = s->c.read();
            gsim::Oracle o;
            if (v != st.commits_done)
                gsim::fail("lost_update", "final value %ld after %d released commits", v,
                           st.commits_done);
        }
        {
            // the writer lock must be free
            auto h = cow->lock();
            h.cancel();
        }
        {
            // a snapshot keeps its value alive by itself: it outlives the cow_guarded object
            auto keep = static_cast<const COW*>(cow)->lock_shared();
            long v0 = keep->c.read();
            delete cow;
            cow = nullptr;
            keep->alive();
            long v1 = keep->c.read();
            if (v0 != v1)
                gsim::fail("snapshot_changed", "a snapshot held across the destruction of the "
                           "cow_guarded object changed from %ld to %ld", v0, v1);
            gsim::probe("cow.snapshot_outlived_container");
        }
        {
            gsim::Oracle o;
            if (!st.live.empty())
                gsim::fail("leak", "%zu value objects were never destroyed (constructed %ld, "
                           "destroyed %ld)", st.live.size(), st.constructed, st.destroyed);
        }
        S = nullptr;
    }
};

void run()
{
    gsim::check_races(gsim::param_int("races", 0) != 0);
    const char* mode = gsim::param("mode", "std");
    int elem = gsim::knob("elem", 0, 3);  // 3: the initializer_list element type
    if (gsim::knob("mutex", 0, 1) == 0) {
        if (elem == 3) WL<std::mutex, CVL>().run(mode);
        else WL<std::mutex>().run(mode);
    } else {
        if (elem == 3) WL<std::timed_mutex, CVL>().run(mode);
        else WL<std::timed_mutex>().run(mode);
    }
}
}  // namespace

GSIM_WORKLOAD(wl_cow, run, OPN)
