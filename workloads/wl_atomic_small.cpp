// wl_atomic_small — atomic_guarded<T> for small, trivially copyable T (long, a
// pair of 32-bit halves, bool-like byte) and for std::string (C15): the register
// must be linearizable and never torn for EVERY element type, also for those a
// "lock-free fast path for word-sized types" would single out.  The payload of
// the other C15 jobs (Cell) is large and non-trivial on purpose; this workload
// covers the opposite corner of the template-argument space.
#include "common.h"
#include "lin.h"

#include <gmlc/libguarded/atomic_guarded.hpp>

#include <cstdint>
#include <mutex>
#include <string>

enum { OP_LOAD = 0, OP_STORE, OP_ASSIGN, OP_CONVERT, OP_EXCHANGE, OP_CAS };
static const char* const OPN[] = {"load", "store", "assign", "convert", "exchange", "cas"};

namespace {
struct Pair {
    int32_t a, b;
    bool operator==(const Pair& o) const { return a == o.a && b == o.b; }
};
static_assert(std::is_trivially_copyable<Pair>::value && sizeof(Pair) == 8, "word-sized POD");

template<class T>
struct Codec;
template<>
struct Codec<long> {
    static long enc(long v) { return v; }
    static long dec(const long& x) { return x; }
};
template<>
struct Codec<Pair> {
    static Pair enc(long v) { return Pair{(int32_t)v, (int32_t)v}; }
    static long dec(const Pair& x)
    {
        if (x.a != x.b)
            gsim::fail("torn_value", "the register returned the halves %d / %d of two different "
                       "stores", (int)x.a, (int)x.b);
        return x.a;
    }
};
template<>
struct Codec<unsigned char> {
    static unsigned char enc(long v) { return (unsigned char)v; }
    static long dec(const unsigned char& x) { return x; }
};
/// equality is NOT identity of representation for these two: 0.0 == -0.0 with different
/// bytes, and a key whose operator== ignores a member.  compare_exchange is specified by
/// equality (operator==), so an `expected` that is equal but not identical must succeed.
template<>
struct Codec<double> {
    static double enc(long v) { return (double)v; }
    static double expect(long v) { return v == 0 ? -0.0 : (double)v; }
    static long dec(const double& x) { return (long)x; }
};
struct Keyed {
    int32_t key;
    int32_t hint;  // a cache: not part of the value
    bool operator==(const Keyed& o) const { return key == o.key; }
};
static_assert(std::is_trivially_copyable<Keyed>::value, "");
template<>
struct Codec<Keyed> {
    static Keyed enc(long v) { return Keyed{(int32_t)v, (int32_t)(v * 7 + 1)}; }
    static Keyed expect(long v) { return Keyed{(int32_t)v, -12345}; }
    static long dec(const Keyed& x) { return x.key; }
};
template<>
struct Codec<std::string> {
    static std::string enc(long v)
    {
        if (v == 0) return std::string();  // the value-initialised register
        return std::string(24, (char)('a' + v % 26)) + std::to_string(v);
    }
    static long dec(const std::string& x)
    {
        if (x.size() < 25) {
            if (x.empty()) return 0;
            gsim::fail("torn_value", "the register returned a string of length %zu", x.size());
        }
        long v = atol(x.c_str() + 24);
        if (x != enc(v)) gsim::fail("torn_value", "the register returned a mixed string");
        return v;
    }
};

template<class T, class = void>
struct Expect {
    static T of(long v) { return Codec<T>::enc(v); }
};
template<class T>
struct Expect<T, std::void_t<decltype(Codec<T>::expect(0L))>> {
    static T of(long v) { return Codec<T>::expect(v); }
};

struct RegModel {
    using State = long;
    State initial() const { return 0; }
    std::string key(const State& s) const { return std::to_string(s); }
    bool apply(State& s, const lin::Event& e) const
    {
        switch (e.op) {
            case OP_LOAD:
            case OP_CONVERT: return e.r == s;
            case OP_STORE:
            case OP_ASSIGN: s = e.a; return true;
            case OP_EXCHANGE:
                if (e.r != s) return false;
                s = e.a;
                return true;
            case OP_CAS:
                if (s == e.a) {
                    if (!e.r) return false;
                    s = e.b;
                    return true;
                }
                return !e.r && e.r2 == s;
            default: return true;
        }
    }
};

std::vector<lin::Event>* H;

int hb(int op, long a, long b)
{
    gsim::Oracle o;
    lin::Event e;
    e.tid = gsim::self();
    e.op = op;
    e.a = a;
    e.b = b;
    e.inv = gsim::seq();
    H->push_back(e);
    return (int)H->size() - 1;
}
void he(int i, long r, long r2 = 0)
{
    gsim::Oracle o;
    (*H)[(size_t)i].r = r;
    (*H)[(size_t)i].r2 = r2;
    (*H)[(size_t)i].resp = gsim::seq();
}

template<class T, class M>
struct WL {
    using AG = gmlc::libguarded::atomic_guarded<T, M>;
    AG* ag;
    void operator()(int t)
    {
        using C = Codec<T>;
        int n = gsim::prog_len(t);
        for (int i = 0; i < n; i++) {
            gsim::Op op = gsim::prog_op(t, i);
            for (int y = 0; y < op.a; y++) gsim::yield();
            switch (op.code) {
                case OP_LOAD: {
                    int e = hb(OP_LOAD, 0, 0);
                    T x = static_cast<const AG*>(ag)->load();
                    he(e, C::dec(x));
                    break;
                }
                case OP_CONVERT: {
                    int e = hb(OP_CONVERT, 0, 0);
                    T x = static_cast<T>(*static_cast<const AG*>(ag));
                    he(e, C::dec(x));
                    break;
                }
                case OP_STORE: {
                    int e = hb(OP_STORE, op.c, 0);
                    if (op.b & 1) {
                        T v = C::enc(op.c);
                        ag->store(v);  // lvalue
                    } else
                        ag->store(C::enc(op.c));
                    he(e, 0);
                    break;
                }
                case OP_ASSIGN: {
                    int e = hb(OP_ASSIGN, op.c, 0);
                    *ag = C::enc(op.c);
                    he(e, 0);
                    break;
                }
                case OP_EXCHANGE: {
                    int e = hb(OP_EXCHANGE, op.c, 0);
                    T old = ag->exchange(C::enc(op.c));
                    he(e, C::dec(old));
                    break;
                }
                default: {
                    T expect = Expect<T>::of(op.b);  // equal to, not necessarily identical with
                    int e = hb(OP_CAS, op.b, op.c);
                    bool ok = ag->compare_exchange(expect, C::enc(op.c));
                    he(e, ok ? 1 : 0, C::dec(expect));
                    break;
                }
            }
        }
    }
    void run()
    {
        std::vector<lin::Event> hist;
        H = &hist;
        // (a value-initialised T decodes to 0: long 0, Pair{0,0}, byte 0, empty string)
        ag = gsim::knob("ctor", 0, 1) ? new AG(T{}) : new AG();
        wl::run_program(*this);
        {
            gsim::Oracle o;
            RegModel m;
            if (hist.size() <= 20) {
                lin::Checker<RegModel> c(m, hist);
                if (!c.check()) {
                    std::string s;
                    for (auto& e : hist)
                        s += std::string(OPN[e.op]) + "(" + std::to_string(e.a) + "," + std::to_string(e.b) +
                            ")=" + std::to_string(e.r) + "/" + std::to_string(e.r2) + "@[" +
                            std::to_string(e.inv) + "," + std::to_string(e.resp) + "] ";
                    gsim::fail("not_linearizable", "no sequential register history explains: %s", s.c_str());
                }
                gsim::probe("small.history_checked");
            }
        }
        delete ag;
        H = nullptr;
    }
};

template<class T>
void run_t()
{
    if (gsim::knob("mutex", 0, 1)) {
        WL<T, std::timed_mutex> w;
        w.run();
    } else {
        WL<T, std::mutex> w;
        w.run();
    }
}

void run()
{
    // the register of C15 is race-free by statement: the detector is part of this check
    gsim::check_races(gsim::param_int("races", 1) != 0);
    if (!gsim::prog_loaded()) {
        int n = 2 + gsim::gen_int(2);
        gsim::prog_reset(n);
        long written[24];
        int nw = 0;
        written[nw++] = 0;
        for (int t = 0; t < n; t++) {
            int k = 1 + gsim::gen_int(4);
            for (int i = 0; i < k; i++) {
                static const int pool[] = {OP_LOAD, OP_LOAD, OP_LOAD, OP_CONVERT, OP_STORE, OP_STORE,
                                           OP_ASSIGN, OP_EXCHANGE, OP_CAS, OP_CAS};
                gsim::Op op{pool[gsim::gen_int(10)], gsim::gen_int(4) == 0 ? 1 : 0, gsim::gen_int(2), 0};
                if (op.code >= OP_STORE && op.code != OP_CONVERT) {
                    op.c = 10 * (t + 1) + i + 1;  // unique, < 128 (fits the byte type)
                    if (op.code == OP_CAS) op.b = (int)written[gsim::gen_int(nw)];
                    if (nw < 24) written[nw++] = op.c;
                }
                gsim::prog_add(t, op);
            }
        }
    }
    int total = 0;
    for (int t = 0; t < gsim::prog_nthreads(); t++) total += gsim::prog_len(t);
    if (total > 20) gsim::fail("harness", "history too long");
    gsim::enable_fault(gsim::F_SPURIOUS_TRYLOCK, gsim::knob("spurious_try", 0, 1) * 100);
    switch (gsim::knob("elem", 0, 5)) {
        case 0: run_t<long>(); break;
        case 1: run_t<Pair>(); break;
        case 2: run_t<unsigned char>(); break;
        case 3: run_t<double>(); break;
        case 4: run_t<Keyed>(); break;
        default: run_t<std::string>(); break;
    }
}
}  // namespace

GSIM_WORKLOAD(wl_atomic_small, run, OPN)
