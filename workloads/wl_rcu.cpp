// wl_rcu — rcu_guarded<rcu_list<T, std::mutex, Alloc>>:
//   C05 no element is freed while a live handle may reach it
//   C12 traversals are consistent, writers are serialised
//   C13 everything allocated is destroyed and freed exactly once, any T
//   C14 reads never wait for writers (mode=freeze)
//   C07 races (races=1)
#include "common.h"

#include <new>

#include <gmlc/libguarded/rcu_guarded.hpp>
#include <gmlc/libguarded/rcu_list.hpp>

#include <algorithm>
#include <map>
#include <set>
#include <string>
#include <vector>

enum {
    OP_TRAVERSE = 0,
    OP_PUSH_FRONT,
    OP_PUSH_BACK,
    OP_EMPLACE_FRONT,
    OP_EMPLACE_BACK,
    OP_ERASE,
    OP_BLIP,
    OP_WTRAVERSE,
    OP_EMPLACE_THROW,
    OP_HOLD_TRAVERSE,
    OP_HOLD_BLIP,
};
static const char* const OPN[] = {"traverse", "push_front", "push_back", "emplace_front",
                                  "emplace_back", "erase", "blip", "wtraverse", "emplace_throw",
                                  "hold_traverse", "hold_blip"};

namespace {

// ------------------------------------------------------------ oracle state
struct Traversal {
    int tid;
    uint64_t begin_inv, end_seq;
    bool complete;
    std::vector<long> seen;
    std::vector<uint64_t> seen_at;
};
struct Mutation {
    int kind;  // 0 push_front 1 push_back 2 erase
    long v;
    uint64_t inv, resp;
};
struct Oracle {
    std::set<const void*> live_elems;  // constructed Tracked elements
    long elems_constructed = 0, elems_destroyed = 0;
    // allocator monitor: pointer -> state (1 allocated, 2 constructed)
    std::map<const void*, int> blocks;
    std::map<const void*, size_t> block_size;
    long allocs = 0, deallocs = 0, constructs = 0, destroys = 0;
    // fault: the allocator handed to the list throws std::bad_alloc (param oom=1).  Once
    // that has happened the membership / order history of the run is no longer checked
    // (an operation that failed may or may not count); exactly-once destruction, leak
    // freedom and memory safety are checked as always.
    bool oom_enabled = false, oom_hit = false;
    long null_destroys = 0;
    bool strict_alloc = false;  // C13: null destroy is a violation
    std::vector<Traversal> travs;
    std::vector<Mutation> muts;
    std::map<long, uint64_t> push_inv, push_resp, erase_inv;
    std::set<long> erase_returned;  // values for which some erase() call returned normally
    bool had_erase = false;
    int throw_budget = 0;
};
Oracle* O;

// ------------------------------------------------------------ element types
struct Elem {
    long v;
    long pad[2];
    explicit Elem(long x): v(x)
    {
        pad[0] = pad[1] = x;
        reg();
    }
    struct MayThrow {};
    Elem(long x, MayThrow): v(x)
    {
        if (gsim::fault_fires(gsim::F_THROW)) throw gsim::injected{30, 0};
        pad[0] = pad[1] = x;
        reg();
    }
    Elem(const Elem& o): v(o.v)
    {
        pad[0] = pad[1] = o.v;
        reg();
    }
    Elem(Elem&& o) noexcept: v(o.v)
    {
        pad[0] = pad[1] = o.v;
        // a move that really moves: the source keeps a value nobody inserted
        o.v = o.pad[0] = o.pad[1] = -4242;
        reg();
    }
    Elem& operator=(const Elem&) = delete;
    ~Elem()
    {
        gsim::Oracle o;
        if (!O) return;
        if (!O->live_elems.erase(this))
            gsim::fail("double_destroy", "element destructor runs on %p which holds no live "
                       "element (destroyed twice or never constructed)", (void*)this);
        O->elems_destroyed++;
    }
    void reg()
    {
        gsim::Oracle o;
        if (!O) return;
        O->live_elems.insert(this);
        O->elems_constructed++;
    }
    long get() const
    {
        {
            gsim::Oracle o;
            if (O && !O->live_elems.count(this))
                gsim::fail("dead_object_access", "dereferenced element at %p whose destructor "
                           "has already run", (const void*)this);
        }
        long x = v;
        if (pad[0] != x || pad[1] != x)
            gsim::fail("dead_object_access", "element at %p is corrupt (%ld %ld %ld)",
                       (const void*)this, v, pad[0], pad[1]);
        return x;
    }
};
inline long value_of(const Elem& e) { return e.get(); }
inline Elem make_elem(long v, Elem*) { return Elem(v); }

inline long value_of(const std::string& s) { return std::stol(s.substr(s.rfind('#') + 1)); }
inline std::string make_elem(long v, std::string*)
{
    return "a-long-heap-allocated-element-value-#" + std::to_string(v);
}

struct Blob {
    long v;
    char bytes[248];
};
static_assert(std::is_trivially_destructible<Blob>::value, "");
inline long value_of(const Blob& b) { return b.v; }
inline Blob make_elem(long v, Blob*)
{
    Blob b;
    b.v = v;
    memset(b.bytes, (int)v, sizeof b.bytes);
    return b;
}

// ------------------------------------------------------ tracking allocator
template<class T>
struct TrackAlloc {
    using value_type = T;
    TrackAlloc() = default;
    template<class U>
    TrackAlloc(const TrackAlloc<U>&) noexcept
    {
    }
    T* allocate(std::size_t n)
    {
        {
            bool on;
            {
                gsim::Oracle o;
                on = O && O->oom_enabled;
            }
            if (on && gsim::fault_fires(gsim::F_ALLOC_FAIL)) {
                {
                    gsim::Oracle o;
                    O->oom_hit = true;
                }
                gsim::probe("rcu.allocation_failed");
                throw std::bad_alloc();
            }
        }
        T* p = static_cast<T*>(::operator new(n * sizeof(T)));
        gsim::Oracle o;
        O->blocks[p] = 1;
        O->block_size[p] = n * sizeof(T);
        O->allocs++;
        return p;
    }
    void deallocate(T* p, std::size_t)
    {
        {
            gsim::Oracle o;
            if (p == nullptr) {
                O->null_destroys++;
                if (O->strict_alloc)
                    gsim::fail("dealloc_unallocated", "deallocate(nullptr): a record that was never "
                               "allocated is freed");
                gsim::probe("rcu.null_deallocate_skipped");
                return;
            }
            auto it = O->blocks.find(p);
            if (it == O->blocks.end())
                gsim::fail("double_free", "deallocate(%p): not allocated or already deallocated",
                           (void*)p);
            if (it->second == 2)
                gsim::fail("dealloc_constructed", "deallocate(%p) of a block whose object was not "
                           "destroyed", (void*)p);
            O->blocks.erase(it);
            O->deallocs++;
        }
        ::operator delete(p);
    }
    template<class U, class... A>
    void construct(U* p, A&&... a)
    {
        {
            gsim::Oracle o;
            auto it = O->blocks.find(p);
            if (it == O->blocks.end())
                gsim::fail("construct_unallocated", "construct(%p) on memory that was not "
                           "allocated", (void*)p);
            if (it->second == 2)
                gsim::fail("construct_twice", "construct(%p) on a live object", (void*)p);
        }
        ::new ((void*)p) U(std::forward<A>(a)...);
        gsim::Oracle o;
        O->blocks[p] = 2;
        O->constructs++;
    }
    template<class U>
    void destroy(U* p)
    {
        {
            gsim::Oracle o;
            if (p == nullptr) {
                O->null_destroys++;
                if (O->strict_alloc)
                    gsim::fail("destroy_unconstructed", "destroy(nullptr): something that was never "
                               "constructed is destroyed");
                gsim::probe("rcu.null_destroy_skipped");
                return;
            }
            auto it = O->blocks.find(p);
            if (it == O->blocks.end() || it->second != 2)
                gsim::fail("destroy_unconstructed", "destroy(%p): %s", (void*)p,
                           it == O->blocks.end() ? "not allocated (or already freed)" :
                                                   "no live object (destroyed twice?)");
            it->second = 1;
            O->destroys++;
        }
        p->~U();
    }
    template<class U>
    bool operator==(const TrackAlloc<U>&) const
    {
        return true;
    }
    template<class U>
    bool operator!=(const TrackAlloc<U>&) const
    {
        return false;
    }
};

// ------------------------------------------------------------- the workload
template<class T, class Alloc>
struct WL {
    using List = gmlc::libguarded::rcu_list<T, std::mutex, Alloc>;
    using G = gmlc::libguarded::rcu_guarded<List>;
    G* g;

    void note_push(long v, int kind, bool begin)
    {
        gsim::Oracle o;
        if (begin) {
            O->push_inv[v] = gsim::seq();
            O->muts.push_back(Mutation{kind, v, gsim::seq(), ~0ull});
        } else {
            O->push_resp[v] = gsim::seq();
            for (auto& m : O->muts)
                if (m.v == v && m.kind == kind) m.resp = gsim::seq();
        }
    }

    template<class H>
    void traverse(H& h, gsim::Op op, Traversal& tr)
    {
        tr.tid = gsim::self();
        {
            gsim::Oracle o;
            tr.begin_inv = gsim::seq();
        }
        tr.complete = true;
        int limit = op.a;  // 0: to the end
        int n = 0;
        // the handle becomes "in use" through operator-> or through operator*
        bool star = (op.c & 2) != 0;
        // op.c & 4: advance by post-increment and read through the returned copy
        bool post = (op.c & 4) != 0;
        for (auto it = star ? (*h).begin() : h->begin(); it != (star ? (*h).end() : h->end());) {
            for (int y = 0; y < op.b; y++) gsim::yield();
            auto cur = it;
            if (post) cur = it++;
            else ++it;
            long v = value_of(*cur);
            {
                gsim::Oracle o;
                tr.seen.push_back(v);
                tr.seen_at.push_back(gsim::seq());
            }
            n++;
            if (limit && n >= limit) {
                tr.complete = false;
                break;
            }
        }
        if (op.c & 1)
            for (int y = 0; y < 3; y++) gsim::yield();  // keep the handle a little longer
        gsim::Oracle o;
        tr.end_seq = gsim::seq();
    }

    void run_op(gsim::Op op, int t, int i)
    {
        long val = 100 * (t + 1) + i + 1;
        switch (op.code) {
            case OP_TRAVERSE: {
                Traversal tr;
                {
                    auto h = static_cast<const G*>(g)->lock_read();
                    traverse(h, op, tr);
                }
                gsim::Oracle o;
                O->travs.push_back(tr);
                break;
            }
            case OP_WTRAVERSE: {
                Traversal tr;
                {
                    auto h = g->lock_write();
                    traverse(h, op, tr);
                }
                gsim::Oracle o;
                O->travs.push_back(tr);
                break;
            }
            case OP_HOLD_TRAVERSE: {
                // window mode: take a handle and an iterator while a writer is parked in
                // the middle of an operation, keep both across the rest of that
                // operation and across other handles' releases, then go on
                Traversal tr;
                {
                    auto h = static_cast<const G*>(g)->lock_read();
                    tr.tid = gsim::self();
                    {
                        gsim::Oracle o;
                        tr.begin_inv = gsim::seq();
                    }
                    tr.complete = true;
                    bool star = (op.b & 2) != 0;
                    auto it = star ? (*h).begin() : h->begin();
                    bool first = true;
                    for (; it != h->end(); ++it) {
                        long v = value_of(*it);
                        if (first) {
                            first = false;
                            gsim::ctr_add(1, 1);  // ready: handle registered, iterator taken
                            gsim::ev_wait(7);  // the writer has finished and released
                            for (int y = 0; y < op.a; y++) gsim::yield();
                            long v2 = value_of(*it);
                            if (v2 != v)
                                gsim::fail("dead_object_access", "element changed from %ld to %ld "
                                           "under a live handle", v, v2);
                        }
                        gsim::Oracle o;
                        tr.seen.push_back(v);
                        tr.seen_at.push_back(gsim::seq());
                    }
                    if (first) {
                        gsim::ctr_add(1, 1);
                        gsim::ev_wait(7);
                    }
                    gsim::Oracle o;
                    tr.end_seq = gsim::seq();
                }
                gsim::Oracle o;
                O->travs.push_back(tr);
                break;
            }
            case OP_HOLD_BLIP: {
                auto h = static_cast<const G*>(g)->lock_read();
                if (op.b & 1) {
                    auto it = h->begin();
                    (void)it;
                } else {
                    (void)*h;
                }
                gsim::ctr_add(1, 1);
                gsim::ev_wait(7);
                for (int y = 0; y < op.a; y++) gsim::yield();
                break;
            }
            case OP_BLIP: {
                auto h = static_cast<const G*>(g)->lock_read();
                if (op.a & 1) {
                    auto it = h->begin();
                    (void)it;
                } else {
                    (void)*h;
                }
                for (int y = 0; y < op.b; y++) gsim::yield();
                break;
            }
            case OP_PUSH_FRONT:
            case OP_PUSH_BACK:
            case OP_EMPLACE_FRONT:
            case OP_EMPLACE_BACK: {
                auto h = g->lock_write();
                bool front = op.code == OP_PUSH_FRONT || op.code == OP_EMPLACE_FRONT;
                note_push(val, front ? 0 : 1, true);
                if (op.code == OP_PUSH_FRONT) h->push_front(make_elem(val, (T*)nullptr));
                else if (op.code == OP_PUSH_BACK) h->push_back(make_elem(val, (T*)nullptr));
                else if (op.b & 1) {
                    // emplace from a named object (an lvalue): it is copied, the caller keeps it
                    T mine = make_elem(val, (T*)nullptr);
                    if (op.code == OP_EMPLACE_FRONT) h->emplace_front(mine);
                    else h->emplace_back(mine);
                    if (value_of(mine) != val)
                        gsim::fail("argument_moved_from", "emplace(lvalue) left the caller's object in "
                                   "a moved-from state (it now reads %ld)", value_of(mine));
                    gsim::probe("rcu.emplace_from_lvalue");
                } else if (op.code == OP_EMPLACE_FRONT) h->emplace_front(make_elem(val, (T*)nullptr));
                else h->emplace_back(make_elem(val, (T*)nullptr));
                note_push(val, front ? 0 : 1, false);
                for (int y = 0; y < op.b; y++) gsim::yield();
                break;
            }
            case OP_EMPLACE_THROW: {
                if constexpr (std::is_same<T, Elem>::value) {
                    auto h = g->lock_write();
                    bool front = op.a & 1;
                    note_push(val, front ? 0 : 1, true);
                    bool threw = false;
                    int held = gsim::held_exclusive();
                    try {
                        if (front) h->emplace_front(val, Elem::MayThrow{});
                        else h->emplace_back(val, Elem::MayThrow{});
                    }
                    catch (const gsim::injected&) {
                        threw = true;
                    }
                    if (threw) {
                        gsim::Oracle o;
                        gsim::probe("rcu.emplace_threw");
                        if (gsim::held_exclusive() != held)
                            gsim::fail("lock_leaked_on_throw", "emplace propagated an exception "
                                       "but left the write mutex locked");
                        O->push_inv.erase(val);
                        for (size_t k = 0; k < O->muts.size(); k++)
                            if (O->muts[k].v == val) {
                                O->muts.erase(O->muts.begin() + (long)k);
                                break;
                            }
                    } else
                        note_push(val, front ? 0 : 1, false);
                }
                break;
            }
            case OP_ERASE: {
                auto h = g->lock_write();
                // collect what this writer sees, then erase the k-th (or all)
                std::vector<typename List::iterator>* its;
                {
                    gsim::Oracle o;
                    its = new std::vector<typename List::iterator>();
                }
                int cnt = 0;
                for (auto it = h->begin(); it != h->end(); ++it) {
                    gsim::Oracle o;
                    its->push_back(it);
                    cnt++;
                }
                if (cnt) {
                    int first = (op.c & 1) ? 0 : op.a % cnt;
                    int last = (op.c & 1) ? cnt - 1 : first;
                    for (int k = first; k <= last; k++) {
                        typename List::iterator it;
                        {
                            gsim::Oracle o;
                            it = (*its)[(size_t)k];
                        }
                        long v = value_of(*it);
                        {
                            gsim::Oracle o;
                            O->had_erase = true;
                            if (!O->erase_inv.count(v)) O->erase_inv[v] = gsim::seq();
                            O->muts.push_back(Mutation{2, v, gsim::seq(), ~0ull});
                        }
                        auto r1 = h->erase(it);
                        {
                            gsim::Oracle o;
                            O->erase_returned.insert(v);
                        }
                        if (op.c & 2) {
                            // erasing an erased element is a no-op that still returns the
                            // position after it (a sweep `it = erase(it)` relies on that)
                            auto r2 = h->erase(it);
                            bool e1 = !(r1 != h->end()), e2 = !(r2 != h->end());
                            if (e1 != e2 || (!e1 && value_of(*r1) != value_of(*r2)))
                                gsim::fail("erase_result", "erase() of an already erased element "
                                           "returned %s, the first erase() of it had returned %s",
                                           e2 ? "end()" : "an element", e1 ? "end()" : "another position");
                            gsim::probe("rcu.double_erase_result_checked");
                        }
                        for (int y = 0; y < op.b; y++) gsim::yield();
                        // the erased element stays valid while this handle lives
                        long v2 = value_of(*it);
                        if (v2 != v)
                            gsim::fail("dead_object_access", "erased element changed from %ld to "
                                       "%ld while the erasing handle is alive", v, v2);
                    }
                }
                gsim::Oracle o;
                delete its;
                break;
            }
            default: break;
        }
    }

    void body(int t)
    {
        int n = gsim::prog_len(t);
        for (int i = 0; i < n; i++) {
            gsim::Op op = gsim::prog_op(t, i);
            bool unwind = (op.c & 8) != 0 && op.code != OP_EMPLACE_THROW &&
                op.code != OP_HOLD_TRAVERSE && op.code != OP_HOLD_BLIP;
            op.c &= 7;
            int held = gsim::held_exclusive();
            try {
                if (unwind) wl::run_in_unwind([&] { run_op(op, t, i); });
                else run_op(op, t, i);
            }
            catch (const std::bad_alloc&) {
                // only ever thrown by the injected allocator fault
                if (gsim::held_exclusive() != held)
                    gsim::fail("lock_leaked_on_throw", "an operation failed with bad_alloc and left "
                               "the write mutex locked");
            }
        }
    }
    struct Body {
        WL* w;
        void operator()(int t) { w->body(t); }
    };

    // ------------------------------------------------ post-run history oracle
    std::vector<long> final_contents()
    {
        std::vector<long> out;
        auto h = static_cast<const G*>(g)->lock_read();
        for (auto it = h->begin(); it != h->end(); ++it) out.push_back(value_of(*it));
        return out;
    }

    static bool order_ok(const std::vector<long>& order, const std::vector<long>& seq)
    {
        // seq must be a subsequence of `order` as far as both mention an element
        size_t pos = 0;
        for (long v : seq) {
            auto it = std::find(order.begin(), order.end(), v);
            if (it == order.end()) continue;  // not placed yet
            size_t p = (size_t)(it - order.begin());
            if (p < pos) return false;
            pos = p;
        }
        return true;
    }

    void check_history(const std::vector<long>& fin)
    {
        gsim::Oracle o;
        // --- membership rules
        std::set<long> finset(fin.begin(), fin.end());
        if (finset.size() != fin.size())
            gsim::fail("duplicate_element", "final contents contain a value twice");
        for (auto& pr : O->push_resp) {
            bool erased = O->erase_inv.count(pr.first) != 0;
            if (!erased && !finset.count(pr.first))
                gsim::fail("lost_element", "value %ld was pushed and never erased but is not in the "
                           "final list", pr.first);
            if (erased && finset.count(pr.first))
                gsim::fail("erase_lost", "value %ld was erased but is still in the final list",
                           pr.first);
        }
        for (long v : fin)
            if (!O->push_inv.count(v))
                gsim::fail("phantom_element", "final list contains %ld which was never pushed", v);
        for (auto& tr : O->travs) {
            std::set<long> s;
            for (size_t k = 0; k < tr.seen.size(); k++) {
                long v = tr.seen[k];
                if (!O->push_inv.count(v) || O->push_inv[v] > tr.seen_at[k])
                    gsim::fail("phantom_element", "a traversal visited %ld before it was pushed", v);
                if (!s.insert(v).second)
                    gsim::fail("visited_twice", "a traversal visited %ld twice", v);
            }
        }
        // --- every stable element is visited by every complete traversal
        for (auto& tr : O->travs) {
            if (!tr.complete) continue;
            for (auto& pr : O->push_resp) {
                long v = pr.first;
                if (pr.second >= tr.begin_inv) continue;
                if (O->erase_inv.count(v) && O->erase_inv[v] <= tr.end_seq) continue;
                if (std::find(tr.seen.begin(), tr.seen.end(), v) == tr.seen.end())
                    gsim::fail("skipped_stable", "a traversal by thread %d skipped %ld which was in "
                               "the list for the whole traversal", tr.tid, v);
            }
        }
        // --- serialisation: find an order of the pushes that respects real time,
        // explains the final order and makes every traversal a subsequence
        std::vector<Mutation> pushes;
        for (auto& m : O->muts)
            if (m.kind != 2) pushes.push_back(m);
        if (pushes.size() > 9) {
            gsim::probe("rcu.serialisation_skipped_long");
            return;
        }
        std::vector<long> order;
        std::vector<bool> used(pushes.size(), false);
        bool ok = search(pushes, used, order, fin);
        if (!ok) {
            std::string d = "final=[";
            for (long v : fin) d += std::to_string(v) + " ";
            d += "] traversals:";
            for (auto& tr : O->travs) {
                d += " [";
                for (long v : tr.seen) d += std::to_string(v) + " ";
                d += "]";
            }
            gsim::fail("not_serialisable", "no sequential order of the %zu pushes (respecting real "
                       "time) explains the final list order, every traversal order and the "
                       "elements partial traversals must have met: %s",
                       pushes.size(), d.c_str());
        }
        gsim::probe("rcu.history_checked");
    }

    /// a traversal that stopped early must have visited every stable element
    /// that lies before the last element it visited (in the candidate order)
    bool partial_stable_ok(const std::vector<long>& order)
    {
        for (auto& tr : O->travs) {
            if (tr.complete || tr.seen.empty()) continue;
            size_t last_pos = 0;
            for (long v : tr.seen) {
                size_t p = (size_t)(std::find(order.begin(), order.end(), v) - order.begin());
                if (p > last_pos) last_pos = p;
            }
            for (size_t p = 0; p < last_pos && p < order.size(); p++) {
                long v = order[p];
                if (O->push_resp.count(v) == 0 || O->push_resp[v] >= tr.begin_inv) continue;
                if (O->erase_inv.count(v) && O->erase_inv[v] <= tr.end_seq) continue;
                if (std::find(tr.seen.begin(), tr.seen.end(), v) == tr.seen.end()) return false;
            }
        }
        return true;
    }

    bool search(const std::vector<Mutation>& pushes, std::vector<bool>& used,
                std::vector<long>& order, const std::vector<long>& fin)
    {
        bool all = true;
        for (size_t i = 0; i < pushes.size(); i++)
            if (!used[i]) all = false;
        if (all) return partial_stable_ok(order);
        for (size_t i = 0; i < pushes.size(); i++) {
            if (used[i]) continue;
            bool blocked = false;
            for (size_t j = 0; j < pushes.size() && !blocked; j++)
                if (j != i && !used[j] && pushes[j].resp != ~0ull && pushes[j].resp <= pushes[i].inv)
                    blocked = true;
            if (blocked) continue;
            if (pushes[i].kind == 0) order.insert(order.begin(), pushes[i].v);
            else order.push_back(pushes[i].v);
            bool ok = order_ok(order, fin);
            for (auto& tr : O->travs)
                if (ok) ok = order_ok(order, tr.seen);
            used[i] = true;
            if (ok && search(pushes, used, order, fin)) return true;
            used[i] = false;
            if (pushes[i].kind == 0) order.erase(order.begin());
            else order.pop_back();
        }
        return false;
    }

    // ------------------------------------------------------------------ run
    static void gen(bool c13, bool with_throw)
    {
        int n = 2 + gsim::gen_int(3);
        gsim::prog_reset(n);
        for (int t = 0; t < n; t++) {
            int role = t == 0 ? 1 + gsim::gen_int(2) : gsim::gen_int(4);  // 0 reader 1 writer 2 mixed 3 blipper
            int k = 1 + gsim::gen_int((c13 ? 5 : 4) + (gsim::thorough() ? 2 : 0));
            for (int i = 0; i < k; i++) {
                int r = gsim::gen_int(100);
                gsim::Op op{OP_TRAVERSE, 0, 0, 0};
                if (role == 0 || (role == 2 && r < 35)) {
                    op.code = gsim::gen_int(6) == 0 ? OP_WTRAVERSE : OP_TRAVERSE;
                    op.a = gsim::gen_int(3) == 0 ? 1 + gsim::gen_int(3) : 0;
                    op.b = gsim::gen_int(4);
                    op.c = gsim::gen_int(2) | (gsim::gen_int(3) == 0 ? 2 : 0) | (gsim::gen_int(3) == 0 ? 4 : 0);
                } else if (role == 3) {
                    op.code = OP_BLIP;
                    op.a = gsim::gen_int(2);
                    op.b = gsim::gen_int(3);
                } else {
                    int w = gsim::gen_int(10);
                    if (w < 5) {
                        op.code = OP_PUSH_FRONT + gsim::gen_int(4);
                        op.b = gsim::gen_int(2);
                    } else if (w < 6 && with_throw) {
                        op.code = OP_EMPLACE_THROW;
                        op.a = gsim::gen_int(2);
                    } else {
                        op.code = OP_ERASE;
                        op.a = gsim::gen_int(4);
                        op.b = gsim::gen_int(3);
                        op.c = gsim::gen_int(8) == 0 ? 1 : (gsim::gen_int(6) == 0 ? 2 : 0);
                    }
                }
                if (gsim::gen_int(12) == 0) op.c |= 8;  // run the op during stack unwinding
                gsim::prog_add(t, op);
            }
        }
    }

    void run(const char* mode)
    {
        bool c13 = !strcmp(mode, "c13");
        bool freeze = !strcmp(mode, "freeze");
        bool window = !strcmp(mode, "window");
        Oracle orc;
        O = &orc;
        orc.strict_alloc = c13;
        bool with_throw = std::is_same<T, Elem>::value && (c13 || !strcmp(mode, "throw"));
        if (!gsim::prog_loaded()) {
            if (freeze) gen_freeze();
            else if (window) gen_window();
            else gen(c13, with_throw);
        }
        gsim::enable_fault(gsim::F_STALE_READ, gsim::knob("stale", 0, 2) * 150);
        if (with_throw) gsim::enable_fault(gsim::F_THROW, 300);
        if (gsim::param_int("oom", 0) && !std::is_same<Alloc, std::allocator<T>>::value) {
            orc.oom_enabled = true;
            gsim::enable_fault(gsim::F_ALLOC_FAIL, 40 + gsim::knob("oom_rate", 0, 2) * 60);
        }
        {
            gsim::Oracle o;
            orc.oom_enabled = false;  // (not while the list is set up)
        }
        g = new G();
        long live0 = gsim::live_blocks();
        (void)live0;
        // a few initial elements so that traversals have something to see
        int init = gsim::knob("initial", window ? 1 : 0, 3);
        {
            auto h = g->lock_write();
            for (int i = 0; i < init; i++) {
                long val = 10 + i;
                note_push(val, 1, true);
                h->push_back(make_elem(val, (T*)nullptr));
                note_push(val, 1, false);
            }
        }
        {
            gsim::Oracle o;
            orc.oom_enabled = gsim::param_int("oom", 0) && !std::is_same<Alloc, std::allocator<T>>::value;
        }
        if (freeze) run_freeze();
        else if (window) run_window();
        else {
            Body b{this};
            wl::run_program(b);
        }
        gsim::faults_off();
        {
            gsim::Oracle o;
            orc.oom_enabled = false;
        }
        std::vector<long>* fin;
        {
            gsim::Oracle o;
            fin = new std::vector<long>();
        }
        // in C13 runs the final read handle is sometimes omitted so that the list
        // destructor (not a later handle release) has to free what was erased
        bool final_read = !c13 || gsim::knob("final_read", 0, 1) == 1;
        if (final_read) {
            std::vector<long> f = final_contents();
            {
                gsim::Oracle o;
                *fin = f;
            }
            bool hit;
            {
                gsim::Oracle o;
                hit = orc.oom_hit;
            }
            if (!hit) check_history(*fin);
            else {
                // after an injected allocation failure only what completed normally is
                // judged: an element whose erase() RETURNED is gone, an element whose push
                // returned and that nobody tried to erase is there (a call that threw may or
                // may not count)
                gsim::Oracle o;
                std::set<long> in(fin->begin(), fin->end());
                if (in.size() != fin->size())
                    gsim::fail("duplicate_element", "final contents contain a value twice");
                for (long v : orc.erase_returned)
                    if (in.count(v))
                        gsim::fail("erase_lost", "an erase() of value %ld returned normally (after an "
                                   "earlier allocation failure somewhere) but the value is still in "
                                   "the final list", v);
                for (auto& pr : orc.push_resp)
                    if (!orc.erase_inv.count(pr.first) && !in.count(pr.first))
                        gsim::fail("lost_element", "value %ld was pushed (the call returned) and never "
                                   "erased but is not in the final list", pr.first);
                for (long v : in)
                    if (!orc.push_inv.count(v))
                        gsim::fail("phantom_element", "final list contains %ld which was never pushed", v);
            }
        } else
            gsim::probe("rcu.destructor_reclaims");
        long destroyed_before = 0;
        {
            gsim::Oracle o;
            destroyed_before = orc.elems_destroyed;
        }
        // C13: with nothing erased, no list element may have been destroyed
        // before the list itself is destroyed (temporaries are: count nodes only
        // through the allocator monitor when it is in use)
        if constexpr (!std::is_same<Alloc, std::allocator<T>>::value) {
            gsim::Oracle o;
            if (!orc.had_erase && c13 && final_read && !orc.oom_hit) {
                // constructs - destroys of *node* blocks: every element pushed must still be
                // constructed.  Handle records are constructed/destroyed in pairs.
                long live_constructed = 0;
                for (auto& b : orc.blocks)
                    if (b.second == 2 && orc.block_size[b.first] > 40) live_constructed++;
                if ((size_t)live_constructed < fin->size())
                    gsim::fail("destroyed_early", "nothing was erased, yet only %ld of %zu list "
                               "elements are still constructed before the list is destroyed",
                               live_constructed, fin->size());
            }
        }
        (void)destroyed_before;
        delete g;
        g = nullptr;
        {
            gsim::Oracle o;
            if constexpr (!std::is_same<Alloc, std::allocator<T>>::value) {
                if (!orc.blocks.empty()) {
                    int constructed = 0;
                    for (auto& b : orc.blocks)
                        if (b.second == 2) constructed++;
                    gsim::fail("leak", "after the list was destroyed %zu blocks are still allocated "
                               "(%d of them hold live objects); allocs=%ld deallocs=%ld",
                               orc.blocks.size(), constructed, orc.allocs, orc.deallocs);
                }
            }
            if (std::is_same<T, Elem>::value && !orc.live_elems.empty()) {
                // temporaries made by the harness are gone by now
                gsim::fail("leak", "%zu element objects were never destroyed",
                           orc.live_elems.size());
            }
            delete fin;
        }
        O = nullptr;
    }

    // C14: a writer is parked at its k-th visible step inside push/erase; readers
    // must complete handle acquisition and full traversals meanwhile.
    struct FArg {
        WL* w;
        int t;
    };
    static void freeze_writer(void* p)
    {
        FArg* a = (FArg*)p;
        int k = gsim::knob("freeze_k", 0, 40);
        bool allowed;
        {
            gsim::Oracle o;
            allowed = gsim::ctr_get(2) == 0;
        }
        if (allowed) gsim::freeze_arm(gsim::self(), k);
        a->w->body(a->t);
        gsim::freeze_disarm(gsim::self());
        gsim::ctr_add(3, 1);
    }
    static void freeze_reader(void* p)
    {
        FArg* a = (FArg*)p;
        a->w->body(a->t);
        gsim::ctr_add(1, 1);
    }
    /// a reader that registered BEFORE the writer took its handle (so it is the oldest live
    /// guard) and ends its read section — traversal and release of the handle — while the
    /// writer is parked: a read section completes whatever the writers are doing
    static void early_reader(void* p)
    {
        WL* w = (WL*)p;
        {
            auto h = static_cast<const G*>(w->g)->lock_read();
            auto it = h->begin();
            gsim::ev_set(60);
            gsim::ctr_wait_ge(61, 1);  // the writer is parked (or done)
            long sum = 0;
            for (; it != h->end(); ++it) sum += value_of(*it);
            gsim::hash_mix((uint64_t)sum);
        }  // handle released here, possibly reclaiming older records
        gsim::ctr_add(62, 1);
        gsim::probe("rcu.early_reader_finished");
    }
    void run_freeze()
    {
        // program thread 0 is the writer, the others are readers
        int n = gsim::prog_nthreads();
        if (n < 1) return;
        FArg args[gsim::MAX_THREADS];
        int tids[gsim::MAX_THREADS];
        int early = -1;
        if (gsim::knob("early_reader", 0, 1) && n < gsim::MAX_THREADS - 2) {
            early = gsim::spawn(early_reader, this);
            gsim::ev_wait(60);
        }
        args[0] = FArg{this, 0};
        tids[0] = gsim::spawn(freeze_writer, &args[0]);
        // the readers start once the writer is parked (or has finished early)
        while (!gsim::is_frozen(tids[0]) && gsim::ctr_get(3) == 0) gsim::yield();
        if (early >= 0) {
            gsim::ctr_add(61, 1);
            gsim::ctr_wait_ge(62, 1);  // must finish while the writer is parked
        }
        for (int t = 1; t < n; t++) {
            args[t] = FArg{this, t};
            tids[t] = gsim::spawn(freeze_reader, &args[t]);
        }
        gsim::ctr_wait_ge(1, n - 1);
        if (gsim::is_frozen(tids[0])) gsim::probe("rcu.readers_completed_while_writer_frozen");
        else gsim::probe("rcu.writer_not_frozen");
        gsim::ctr_add(2, 1);
        gsim::thaw(tids[0]);
        gsim::freeze_disarm(tids[0]);
        for (int t = 0; t < n; t++) gsim::join(tids[t]);
        if (early >= 0) gsim::join(early);
    }
    // C05 "window" mode: the writer is parked at its k-th step inside push/erase; blips
    // and readers register and take iterators *inside that window*; the writer then
    // finishes and releases; the others release in varying orders.
    static void window_writer(void* p)
    {
        FArg* a = (FArg*)p;
        int k = gsim::knob("freeze_k", 0, 40);
        gsim::freeze_arm(gsim::self(), k);
        a->w->body(a->t);
        gsim::freeze_disarm(gsim::self());
        gsim::ctr_add(3, 1);
        gsim::ev_set(7);
    }
    static void window_other(void* p)
    {
        FArg* a = (FArg*)p;
        a->w->body(a->t);
    }
    void run_window()
    {
        int n = gsim::prog_nthreads();
        if (n < 1) return;
        int holders = 0;
        for (int t = 1; t < n; t++)
            for (int i = 0; i < gsim::prog_len(t); i++) {
                int c = gsim::prog_op(t, i).code;
                if (c == OP_HOLD_TRAVERSE || c == OP_HOLD_BLIP) {
                    holders++;
                    if (i != 0) gsim::fail("harness", "a hold op must be a thread's first op");
                }
            }
        FArg args[gsim::MAX_THREADS];
        int tids[gsim::MAX_THREADS];
        args[0] = FArg{this, 0};
        tids[0] = gsim::spawn(window_writer, &args[0]);
        while (!gsim::is_frozen(tids[0]) && gsim::ctr_get(3) == 0) gsim::yield();
        if (gsim::is_frozen(tids[0])) gsim::probe("rcu.window_opened");
        for (int t = 1; t < n; t++) {
            args[t] = FArg{this, t};
            tids[t] = gsim::spawn(window_other, &args[t]);
        }
        gsim::ctr_wait_ge(1, holders);  // every holder is registered and waits
        gsim::thaw(tids[0]);
        gsim::freeze_disarm(tids[0]);
        for (int t = 0; t < n; t++) gsim::join(tids[t]);
    }
    static void gen_window()
    {
        int n = 3 + gsim::gen_int(3);
        gsim::prog_reset(n);
        int k = 1 + gsim::gen_int(2);
        for (int i = 0; i < k; i++) {
            gsim::Op op{OP_ERASE, gsim::gen_int(4), 0, gsim::gen_int(6) == 0 ? 1 : 0};
            if (gsim::gen_int(4) == 0) op = gsim::Op{OP_PUSH_FRONT + gsim::gen_int(4), 0, 0, 0};
            gsim::prog_add(0, op);
        }
        for (int t = 1; t < n; t++) {
            gsim::prog_add(t, {gsim::gen_int(2) ? OP_HOLD_BLIP : OP_HOLD_TRAVERSE, gsim::gen_int(4),
                               gsim::gen_int(4), 0});
            if (gsim::gen_int(3) == 0)
                gsim::prog_add(t, {gsim::gen_int(2) ? OP_BLIP : OP_TRAVERSE, 0, gsim::gen_int(2), 0});
        }
    }
    static void gen_freeze()
    {
        int n = 2 + gsim::gen_int(2);
        gsim::prog_reset(n);
        int k = 1 + gsim::gen_int(3);
        for (int i = 0; i < k; i++) {
            gsim::Op op{OP_PUSH_FRONT + gsim::gen_int(4), 0, 0, 0};
            if (gsim::gen_int(2)) op = gsim::Op{OP_ERASE, gsim::gen_int(4), 0, 0};
            gsim::prog_add(0, op);
        }
        for (int t = 1; t < n; t++) {
            int r = 1 + gsim::gen_int(3);
            for (int i = 0; i < r; i++)
                gsim::prog_add(t, gsim::Op{gsim::gen_int(4) == 0 ? OP_BLIP : OP_TRAVERSE, 0,
                                           gsim::gen_int(2), 0});
        }
    }
};

void run()
{
    gsim::check_races(gsim::param_int("races", 0) != 0);
    const char* mode = gsim::param("mode", "std");
    int elem = gsim::param_int("elem", 0);  // 0 Elem 1 string 2 Blob
    int alloc = gsim::knob("alloc", 0, 1);  // 0 tracking allocator, 1 std::allocator
    if (gsim::param_int("alloc", -1) >= 0) alloc = gsim::param_int("alloc", 0);
    if (elem == 1) {
        if (alloc) WL<std::string, std::allocator<std::string>>().run(mode);
        else WL<std::string, TrackAlloc<std::string>>().run(mode);
    } else if (elem == 2) {
        if (alloc) WL<Blob, std::allocator<Blob>>().run(mode);
        else WL<Blob, TrackAlloc<Blob>>().run(mode);
    } else {
        if (alloc) WL<Elem, std::allocator<Elem>>().run(mode);
        else WL<Elem, TrackAlloc<Elem>>().run(mode);
    }
}
}  // namespace

GSIM_WORKLOAD(wl_rcu, run, OPN)
