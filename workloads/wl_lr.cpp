// wl_lr — lr_guarded<Cell>: C03 (readers see complete, current states),
// C14 (reads never wait for writers; mode=freeze / mode=overlap),
// C20 (throwing functor is all-or-nothing; mode=throw), C07 (races).
#include "common.h"

#include <gmlc/libguarded/lr_guarded.hpp>

#include <optional>
#include <vector>

#include <chrono>

using wl::Cell;
using LR = gmlc::libguarded::lr_guarded<Cell>;

enum { OP_MODIFY = 0, OP_READ, OP_MODIFY_THROW, OP_READ_LOOP };
static const char* const OPN[] = {"modify", "read", "modify_throw", "read_loop"};

namespace {
struct State {
    // the wrapper is built from nothing, from an rvalue or from an lvalue of the payload
    // (a constructor that forwards its arguments twice leaves the second copy moved-from)
    std::optional<LR> lr;
    State()
    {
        switch (gsim::knob("ctor", 0, 2)) {
            case 1: lr.emplace(Cell(0)); break;
            case 2: {
                Cell init(0);
                lr.emplace(init);
                break;
            }
            default: lr.emplace(); break;
        }
    }
    // oracle state (touched only inside gsim::Oracle scopes)
    int mod_invoked = 0;  // modifies whose effect may be visible
    int mod_done = 0;  // modifies that have returned (effect must be visible)
    long last_seen[gsim::MAX_THREADS] = {0};
    int throw_at = 0;  // functor application ordinal that throws (per call), 0 none
    int writer_tid = -1;
    int reads_done = 0;
    bool writer_done = false;
    int writers_left = 1;
    bool freeze_allowed = true;
};
State* S;

struct Inc {
    int* apps;  // counts applications of this call
    int throw_at;
    void operator()(Cell& c) const
    {
        int k;
        {
            gsim::Oracle o;
            k = ++*apps;
        }
        if (throw_at && k == throw_at) {
            // throw after the first word has been written: the copy is half-applied
            gsim::win_begin(&c, true);
            c.w[0] += 1;
            gsim::yield();
            gsim::win_end(&c, true);
            throw gsim::injected{10, k};
        }
        c.rmw_add(1);
    }
};

void do_modify(int throw_at)
{
    int apps = 0;
    {
        gsim::Oracle o;
        if (throw_at != 1) S->mod_invoked++;
    }
    bool threw = false;
    try {
        S->lr->modify(Inc{&apps, throw_at});
    }
    catch (const gsim::injected&) {
        threw = true;
    }
    {
        gsim::Oracle o;
        if (throw_at && !threw)
            gsim::fail("exception_lost", "functor threw at application %d but modify() returned "
                       "normally", throw_at);
        if (!throw_at && threw) gsim::fail("harness", "unexpected exception");
        if (throw_at != 1) S->mod_done++;
        if (gsim::held_exclusive() || gsim::held_shared())
            gsim::fail("leaked_lock", "modify() returned with %d locks held",
                       gsim::held_exclusive());
    }
}

long read_once(LR::shared_handle& h, int lo, const char* what)
{
    long v = h->read();
    int hi;
    {
        gsim::Oracle o;
        hi = S->mod_invoked;
        int me = gsim::self();
        if (v < lo)
            gsim::fail("stale_read", "%s: reader saw value %ld but %d modifications had "
                       "completed before its lock_shared began", what, v, lo);
        if (v > hi)
            gsim::fail("future_read", "%s: reader saw value %ld but only %d modifications "
                       "had started", what, v, hi);
        if (v < S->last_seen[me])
            gsim::fail("went_backwards", "%s: reader saw %ld after having seen %ld", what, v,
                       S->last_seen[me]);
        S->last_seen[me] = v;
    }
    return v;
}

LR::shared_handle acquire(int form)
{
    using namespace std::chrono_literals;
    switch (form & 3) {
        case 0: return S->lr->lock_shared();
        case 1: return S->lr->try_lock_shared();
        case 2: return S->lr->try_lock_shared_for(5ms);
        default: return S->lr->try_lock_shared_until(std::chrono::steady_clock::now() + 5ms);
    }
}

void do_read(gsim::Op op)
{
    int lo;
    {
        gsim::Oracle o;
        lo = S->mod_done;
    }
    auto h = acquire(op.a);
    if (!h) return;
    long v = read_once(h, lo, "first read");
    for (int i = 0; i < op.b; i++) gsim::yield();
    long v2 = h->read();
    if (v2 != v)
        gsim::fail("unstable", "value under one shared handle changed from %ld to %ld", v, v2);
    if (op.c & 1) {
        int lo2;
        {
            gsim::Oracle o;
            lo2 = S->mod_done;
        }
        auto h2 = acquire(op.a >> 2);
        if (h2) {
            read_once(h2, lo2, "second handle");
            gsim::yield();
            long v3 = h->read();
            if (v3 != v)
                gsim::fail("unstable", "value under the older handle changed from %ld to %ld", v,
                           v3);
        }
    }
    h.reset();
    {
        gsim::Oracle o;
        S->reads_done++;
    }
}

void body(int t)
{
    int n = gsim::prog_len(t);
    for (int i = 0; i < n; i++) {
        gsim::Op op = gsim::prog_op(t, i);
        auto exec = [&] {
            switch (op.code) {
                case OP_MODIFY: do_modify(0); break;
                case OP_MODIFY_THROW: do_modify(1 + (op.a & 1)); break;
                case OP_READ: do_read(op); break;
                default: break;
            }
        };
        if (op.c & 2) wl::run_in_unwind(exec);
        else exec();
    }
}

void final_checks(int extra)
{
    int total;
    {
        gsim::Oracle o;
        total = S->mod_done;
    }
    for (int k = 0; k <= extra; k++) {
        auto h = S->lr->lock_shared();
        long v = h->read();
        if (v != total + k)
            gsim::fail("lost_update", "after all threads joined and %d further modifies the "
                       "value is %ld, expected %d", k, v, total + k);
        h.reset();
        if (k < extra) S->lr->modify([](Cell& c) { c.rmw_add(1); });
    }
}

// ---------------------------------------------------------------- std mode
void run_std(bool with_throw)
{
    Cell::W = gsim::knob("W", 1, 4);
    if (!gsim::prog_loaded()) {
        int deep = gsim::thorough() ? 2 : 0;
        int nw = 1 + gsim::gen_int(2), nr = 1 + gsim::gen_int(3 + (deep ? 1 : 0));
        gsim::prog_reset(nw + nr);
        for (int t = 0; t < nw; t++) {
            int k = 1 + gsim::gen_int(3 + deep);
            for (int i = 0; i < k; i++) {
                if (with_throw && gsim::gen_int(3) == 0)
                    gsim::prog_add(t, {OP_MODIFY_THROW, gsim::gen_int(2), 0, gsim::gen_int(4) == 0 ? 2 : 0});
                else
                    gsim::prog_add(t, {OP_MODIFY, 0, 0, gsim::gen_int(12) == 0 ? 2 : 0});
            }
            if (gsim::gen_int(4) == 0)
                gsim::prog_add(t, {OP_READ, gsim::gen_int(16), gsim::gen_int(3), 0});
        }
        for (int t = nw; t < nw + nr; t++) {
            int k = 1 + gsim::gen_int(4);
            for (int i = 0; i < k; i++)
                gsim::prog_add(t, {OP_READ, gsim::gen_int(16), gsim::gen_int(4),
                                   (gsim::gen_int(4) == 0 ? 1 : 0) | (gsim::gen_int(12) == 0 ? 2 : 0)});
        }
    }
    gsim::enable_fault(gsim::F_STALE_READ, gsim::knob("stale", 0, 2) * 150);
    S = new State();
    wl::run_program(body);
    final_checks(2);
    delete S;
    S = nullptr;
}

// ------------------------------------------------------------- freeze mode
// C14(a): the writer is parked at its k-th visible step inside modify(); the
// readers must complete full read acquisitions while it stays parked.
void freeze_writer(void*)
{
    int k = gsim::knob("freeze_k", 0, 20);
    {
        gsim::Oracle o;
        if (S->freeze_allowed) gsim::freeze_arm(gsim::self(), k);
    }
    do_modify(0);
    gsim::freeze_disarm(gsim::self());
    {
        gsim::Oracle o;
        S->writer_done = true;
    }
}
void freeze_reader(void* arg)
{
    int t = (int)(long)arg;
    int n = gsim::prog_len(t);
    for (int i = 0; i < n; i++) {
        gsim::Op op = gsim::prog_op(t, i);
        if (op.code == OP_READ) do_read(op);
    }
    gsim::ctr_add(1, 1);
}
void run_freeze()
{
    Cell::W = gsim::knob("W", 1, 4);
    if (!gsim::prog_loaded()) {
        int nr = 1 + gsim::gen_int(3);
        gsim::prog_reset(nr);
        for (int t = 0; t < nr; t++) {
            int k = 1 + gsim::gen_int(3);
            for (int i = 0; i < k; i++)
                gsim::prog_add(t, {OP_READ, gsim::gen_int(16), gsim::gen_int(3),
                                   gsim::gen_int(4) == 0 ? 1 : 0});
        }
    }
    S = new State();
    // optional earlier modifies so that both sides have been used
    int pre = gsim::knob("pre_modifies", 0, 2);
    for (int i = 0; i < pre; i++) do_modify(0);
    int nr = gsim::prog_nthreads();
    int wt = gsim::spawn(freeze_writer, nullptr);
    S->writer_tid = wt;
    // the readers start once the writer is parked (or has finished early)
    for (;;) {
        bool done;
        {
            gsim::Oracle o;
            done = S->writer_done;
        }
        if (done || gsim::is_frozen(wt)) break;
        gsim::yield();
    }
    int rt[gsim::MAX_THREADS];
    for (int t = 0; t < nr; t++) rt[t] = gsim::spawn(freeze_reader, (void*)(long)t);
    // thread 0 waits until every reader has finished its reads; the writer is
    // either frozen (then it must stay so) or finished already
    gsim::ctr_wait_ge(1, nr);
    if (gsim::is_frozen(wt)) gsim::probe("lr.readers_completed_while_writer_frozen");
    else gsim::probe("lr.writer_finished_before_freeze_point");
    {
        gsim::Oracle o;
        S->freeze_allowed = false;
    }
    gsim::thaw(wt);
    gsim::freeze_disarm(wt);
    for (int t = 0; t < nr; t++) gsim::join(rt[t]);
    gsim::join(wt);
    final_checks(2);
    delete S;
    S = nullptr;
}

// ------------------------------------------------------------ overlap mode
// C14(d): two readers keep re-acquiring so that at every instant at least one
// shared handle is held; the writer must still get through.
void overlap_reader(void* arg)
{
    int me = (int)(long)arg;
    // Hand-over-hand: a reader drops its handle only after the other reader has
    // taken a *new* handle since this one was acquired, so from the first
    // acquisition on at least one shared handle is held at every instant.
    // The readers stop only when the writer has finished: a writer that can be
    // starved by overlapping readers never finishes => no_progress.
    for (;;) {
        bool done;
        {
            gsim::Oracle o;
            done = S->writer_done;
        }
        if (done) break;
        auto h = acquire(gsim::choose(4));
        if (!h) continue;
        (void)h->read();
        int other_at_acquire = gsim::ctr_get(10 + (1 - me));
        gsim::ctr_add(10 + me, 1);
        for (;;) {
            bool d2;
            {
                gsim::Oracle o;
                d2 = S->writer_done;
            }
            if (d2 || gsim::ctr_get(10 + (1 - me)) > other_at_acquire) break;
            gsim::yield();
        }
        h.reset();
    }
    gsim::ctr_add(10 + me, 1000000);  // release the other reader if it still waits
}
void overlap_writer(void*)
{
    gsim::ctr_wait_ge(10, 1);
    int n = gsim::knob("writer_modifies", 1, 2);
    for (int i = 0; i < n; i++) do_modify(0);
    {
        gsim::Oracle o;
        if (--S->writers_left <= 0) S->writer_done = true;
    }
}
void run_overlap()
{
    Cell::W = gsim::knob("W", 1, 2);
    if (!gsim::prog_loaded()) gsim::prog_reset(0);
    S = new State();
    // one or two writers: with two, the second one waits for the write mutex while the
    // first is in the middle of its flips
    int nw = gsim::knob("writers", 1, 2);
    S->writers_left = nw;
    int a = gsim::spawn(overlap_reader, (void*)0L);
    int b = gsim::spawn(overlap_reader, (void*)1L);
    int w = gsim::spawn(overlap_writer, nullptr);
    int w2 = nw > 1 ? gsim::spawn(overlap_writer, nullptr) : -1;
    gsim::join(a);
    gsim::join(b);
    gsim::join(w);
    if (w2 >= 0) gsim::join(w2);
    final_checks(1);
    delete S;
    S = nullptr;
}

// ------------------------------------------------------------- rstall mode
// "slow node" fault aimed at the reader: a reader is parked at its k-th step
// *inside* lock_shared (between reading the counting side, registering and
// reading the data side) while writers run for a while; then it is released.
void rstall_reader(void* arg)
{
    int t = (int)(long)arg;
    gsim::freeze_arm(gsim::self(), gsim::knob("reader_freeze_k", 0, 4));
    body(t);
    gsim::freeze_disarm(gsim::self());
    gsim::ctr_add(5, 1);
}
void rstall_other(void* arg)
{
    body((int)(long)arg);
}
void run_rstall()
{
    Cell::W = gsim::knob("W", 1, 3);
    if (!gsim::prog_loaded()) {
        int nw = 1 + gsim::gen_int(2);
        gsim::prog_reset(1 + nw);
        int k = 1 + gsim::gen_int(2);
        for (int i = 0; i < k; i++)
            gsim::prog_add(0, {OP_READ, gsim::gen_int(16), gsim::gen_int(3), 0});
        for (int t = 1; t <= nw; t++) {
            int m = 1 + gsim::gen_int(3);
            for (int i = 0; i < m; i++) gsim::prog_add(t, {OP_MODIFY, 0, 0, 0});
            if (gsim::gen_int(3) == 0) gsim::prog_add(t, {OP_READ, gsim::gen_int(16), 0, 0});
        }
    }
    S = new State();
    int pre = gsim::knob("pre_modifies", 0, 1);
    for (int i = 0; i < pre; i++) do_modify(0);
    int n = gsim::prog_nthreads();
    int tids[gsim::MAX_THREADS];
    tids[0] = gsim::spawn(rstall_reader, (void*)0L);
    while (!gsim::is_frozen(tids[0]) && gsim::ctr_get(5) == 0) gsim::yield();
    if (gsim::is_frozen(tids[0])) gsim::probe("lr.reader_parked_inside_lock_shared");
    for (int t = 1; t < n; t++) tids[t] = gsim::spawn(rstall_other, (void*)(long)t);
    int wait = gsim::knob("thaw_after", 0, 80);
    for (int y = 0; y < wait; y++) gsim::yield();
    gsim::thaw(tids[0]);
    gsim::freeze_disarm(tids[0]);
    for (int t = 0; t < n; t++) gsim::join(tids[t]);
    final_checks(2);
    delete S;
    S = nullptr;
}

// --------------------------------------------------------------- many mode
// One thread may hold any number of shared handles.  The reader counters count
// handles, so their width is a boundary of its own: with N handles alive (N around
// 2^8 and 2^16) a writer must still wait for every one of them.
struct ManyState {
    std::vector<LR::shared_handle>* held;
    bool release_begun = false;
    int n = 0;
};
ManyState* MS;

void many_reader(void*)
{
    long v0 = -1;
    for (int i = 0; i < MS->n; i++) {
        auto h = S->lr->lock_shared();
        long v = h->read();
        if (v0 < 0) v0 = v;
        gsim::Oracle o;
        MS->held->push_back(std::move(h));
    }
    gsim::ev_set(1);
    for (int y = 0; y < 40; y++) gsim::yield();  // the writer is (or should be) waiting
    for (int i : {0, MS->n / 2, MS->n - 1}) {
        long v;
        {
            gsim::Oracle o;
            v = (*MS->held)[(size_t)i]->read();
        }
        if (v != v0)
            gsim::fail("modified_under_handle", "one of %d shared handles held by one thread sees "
                       "%ld, it saw %ld when all of them were taken", MS->n, v, v0);
    }
    {
        gsim::Oracle o;
        MS->release_begun = true;
    }
    // release through the library (instrumented), newest first
    while (true) {
        std::unique_ptr<LR::shared_handle> hp;
        {
            gsim::Oracle o;
            if (MS->held->empty()) break;
            hp.reset(new LR::shared_handle(std::move(MS->held->back())));
            MS->held->pop_back();
        }
        hp->reset();
        gsim::Oracle o;
        hp.reset();
    }
}
void many_writer(void*)
{
    gsim::ev_wait(1);
    S->lr->modify([](Cell& c) { c.rmw_add(1); });
    gsim::Oracle o;
    if (!MS->release_begun)
        gsim::fail("writer_overtook_readers", "modify() returned while %d shared handles taken "
                   "before it began were all still held", MS->n);
    S->mod_done++;
}
void run_many()
{
    Cell::W = 1;
    static const int sizes[] = {2, 255, 256, 257, 65535, 65536, 65537, 131072};
    S = new State();
    ManyState ms;
    MS = &ms;
    ms.n = sizes[gsim::knob("handles", 0, 7)];
    {
        gsim::Oracle o;
        ms.held = new std::vector<LR::shared_handle>();
        ms.held->reserve((size_t)ms.n);
    }
    if (gsim::knob("pre_modify", 0, 1)) do_modify(0);  // readers on the other side
    gsim::prog_reset(2);
    int r = gsim::spawn(many_reader, nullptr);
    int w = gsim::spawn(many_writer, nullptr);
    gsim::join(r);
    gsim::join(w);
    final_checks(1);
    {
        gsim::Oracle o;
        delete ms.held;
    }
    gsim::probe("lr.many_handles_one_thread");
    delete S;
    S = nullptr;
    MS = nullptr;
}

void run()
{
    const char* mode = gsim::param("mode", "std");
    gsim::check_races(gsim::param_int("races", 0) != 0);
    if (!strcmp(mode, "freeze")) run_freeze();
    else if (!strcmp(mode, "overlap")) run_overlap();
    else if (!strcmp(mode, "rstall")) run_rstall();
    else if (!strcmp(mode, "throw")) run_std(true);
    else if (!strcmp(mode, "many")) run_many();
    else run_std(false);
}
}  // namespace

GSIM_WORKLOAD(wl_lr, run, OPN)
