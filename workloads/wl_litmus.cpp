// wl_litmus — known-answer programs for the simulator itself (memory-model
// executor, happens-before race detector, quarantining heap, condvar and
// timed-wait semantics).  Every test names outcomes that must never occur
// (reported as a violation) and outcomes that must be reachable (counted by
// probes; bin/litmus asserts that the count is non-zero).
#include "common.h"

#include <atomic>
#include <chrono>
#include <condition_variable>
#include <mutex>
#include <shared_mutex>
#include <string>

static const char* const OPN[] = {"nop"};

namespace {
struct Shared {
    std::atomic<int> x{0}, y{0}, z{0};
    std::atomic<int*> ptr{nullptr};
    int data = 0;
    int r[4] = {0, 0, 0, 0};
    char bytes[8] = {0};
    std::mutex m;
    std::condition_variable cv;
    std::timed_mutex tm;
    std::recursive_mutex rm;
    bool flag = false;
};
Shared* S;
const char* T;
std::memory_order MO_ST, MO_LD;

bool is(const char* n) { return !strcmp(T, n); }

void t0(void*)
{
    if (is("mp_rel_acq") || is("mp_relaxed") || is("mp_sc")) {
        S->data = 42;
        S->y.store(1, MO_ST);
    } else if (is("sb_sc") || is("sb_acqrel")) {
        S->x.store(1, MO_ST);
        S->r[0] = S->y.load(MO_LD);
    } else if (is("corr")) {
        S->x.store(1, std::memory_order_relaxed);
        S->x.store(2, std::memory_order_relaxed);
    } else if (is("relseq_rmw")) {
        S->data = 7;
        S->x.store(1, std::memory_order_release);
    } else if (is("lb")) {
        S->r[0] = S->x.load(std::memory_order_relaxed);
        S->y.store(1, std::memory_order_relaxed);
    } else if (is("iriw")) {
        S->x.store(1, std::memory_order_release);
    } else if (is("adjacent_bytes")) {
        S->bytes[0] = 1;
    } else if (is("same_byte_race")) {
        S->bytes[3] = 1;
    } else if (is("mutex_hb")) {
        std::lock_guard<std::mutex> g(S->m);
        S->data += 1;
    } else if (is("recursive_mutex")) {
        std::lock_guard<std::recursive_mutex> g1(S->rm);
        std::lock_guard<std::recursive_mutex> g2(S->rm);  // the owner may lock again
        int v = S->data;
        gsim::yield();
        S->data = v + 1;
    } else if (is("endless_loop")) {
        volatile int spin = 1;
        while (spin) {
        }
    } else if (is("uaf")) {
        int* p = new int(5);
        S->ptr.store(p, std::memory_order_release);
        gsim::yield();
        delete p;
    } else if (is("uaf_safe")) {
        int* p = new int(5);
        S->ptr.store(p, std::memory_order_release);
        while (S->z.load(std::memory_order_acquire) != 1) gsim::yield();  // the reader is done
        delete p;
    } else if (is("cv_lost_wakeup_free")) {
        std::unique_lock<std::mutex> lk(S->m);
        S->cv.wait(lk, [] { return S->flag; });
    } else if (is("timed_mutex_timeout")) {
        S->tm.lock();
        gsim::ev_set(1);
        gsim::ev_wait(2);
        S->tm.unlock();
    } else if (is("fence_mp")) {
        S->data = 9;
        std::atomic_thread_fence(std::memory_order_release);
        S->y.store(1, std::memory_order_relaxed);
    }
}
void t1(void*)
{
    if (is("mp_rel_acq") || is("mp_relaxed") || is("mp_sc")) {
        if (S->y.load(MO_LD) == 1) {
            int d = S->data;  // racy iff the orders do not synchronise
            if (d != 42) gsim::fail("litmus_forbidden", "message passing: flag seen but data=%d", d);
            gsim::probe("litmus.mp.flag_seen");
        } else
            gsim::probe("litmus.mp.flag_not_seen");
    } else if (is("sb_sc") || is("sb_acqrel")) {
        S->y.store(1, MO_ST);
        S->r[1] = S->x.load(MO_LD);
    } else if (is("corr")) {
        int a = S->x.load(std::memory_order_relaxed);
        int b = S->x.load(std::memory_order_relaxed);
        if (b < a) gsim::fail("litmus_forbidden", "CoRR violated: read %d then %d", a, b);
        if (a == 1 && b == 1) gsim::probe("litmus.corr.stale_pair");
        if (a == 0 && b == 2) gsim::probe("litmus.corr.0_then_2");
    } else if (is("relseq_rmw")) {
        S->x.fetch_add(1, std::memory_order_relaxed);  // continues the release sequence
    } else if (is("lb")) {
        S->r[1] = S->y.load(std::memory_order_relaxed);
        S->x.store(1, std::memory_order_relaxed);
    } else if (is("iriw")) {
        S->y.store(1, std::memory_order_release);
    } else if (is("adjacent_bytes")) {
        S->bytes[1] = 2;  // a different memory location: no race
    } else if (is("same_byte_race")) {
        S->bytes[3] = 2;  // the same byte: must be reported
    } else if (is("mutex_hb")) {
        std::lock_guard<std::mutex> g(S->m);
        S->data += 1;
    } else if (is("recursive_mutex")) {
        if (S->rm.try_lock()) {
            if (S->rm.try_lock()) {
                gsim::probe("litmus.recursive.relocked");
                S->rm.unlock();
            } else
                gsim::fail("litmus_forbidden", "the owner's second try_lock on a recursive mutex failed");
            int v = S->data;
            gsim::yield();
            S->data = v + 1;
            S->rm.unlock();
        } else {
            gsim::probe("litmus.recursive.excluded");
            std::lock_guard<std::recursive_mutex> g(S->rm);
            S->data += 1;
        }
    } else if (is("uaf") || is("uaf_safe")) {
        int* q = nullptr;
        for (int i = 0; i < 6 && !q; i++) {
            q = S->ptr.load(std::memory_order_acquire);
            if (!q) gsim::yield();
        }
        if (q) {
            gsim::yield();
            if (*q != 5) gsim::fail("litmus_forbidden", "read %d through the pointer", *q);
            gsim::probe("litmus.uaf.pointer_read");
        }
        S->z.store(1, std::memory_order_release);
    } else if (is("cv_lost_wakeup_free")) {
        {
            std::lock_guard<std::mutex> g(S->m);
            S->flag = true;
        }
        S->cv.notify_one();
    } else if (is("timed_mutex_timeout")) {
        gsim::ev_wait(1);
        auto t0 = std::chrono::steady_clock::now();
        bool got = S->tm.try_lock_for(std::chrono::milliseconds(50));
        auto dt = std::chrono::steady_clock::now() - t0;
        if (got) gsim::fail("litmus_forbidden", "try_lock_for obtained a mutex that is held");
        if (dt < std::chrono::milliseconds(50))
            gsim::fail("litmus_forbidden", "try_lock_for gave up after %lld ns < 50 ms",
                       (long long)std::chrono::duration_cast<std::chrono::nanoseconds>(dt).count());
        gsim::probe("litmus.timeout_observed");
        gsim::ev_set(2);
    } else if (is("fence_mp")) {
        if (S->y.load(std::memory_order_relaxed) == 1) {
            std::atomic_thread_fence(std::memory_order_acquire);
            if (S->data != 9) gsim::fail("litmus_forbidden", "fence MP: data=%d", S->data);
            gsim::probe("litmus.fence_mp.flag_seen");
        }
    }
}
void t2(void*)
{
    if (is("relseq_rmw")) {
        if (S->x.load(std::memory_order_acquire) == 2) {
            // read from the RMW, which continues the release sequence of the store
            if (S->data != 7) gsim::fail("litmus_forbidden", "release sequence broken: data=%d", S->data);
            gsim::probe("litmus.relseq.rmw_seen");
        }
    } else if (is("iriw")) {
        S->r[0] = S->x.load(std::memory_order_acquire);
        S->r[1] = S->y.load(std::memory_order_acquire);
    }
}
void t3(void*)
{
    if (is("iriw")) {
        S->r[2] = S->y.load(std::memory_order_acquire);
        S->r[3] = S->x.load(std::memory_order_acquire);
    }
}

void run()
{
    T = gsim::param("test", "mp_rel_acq");
    if (!gsim::prog_loaded()) gsim::prog_reset(0);
    MO_ST = std::memory_order_seq_cst;
    MO_LD = std::memory_order_seq_cst;
    if (is("mp_rel_acq")) MO_ST = std::memory_order_release, MO_LD = std::memory_order_acquire;
    if (is("mp_relaxed")) MO_ST = std::memory_order_relaxed, MO_LD = std::memory_order_relaxed;
    if (is("sb_acqrel")) MO_ST = std::memory_order_release, MO_LD = std::memory_order_acquire;
    gsim::check_races(true);
    gsim::enable_fault(gsim::F_STALE_READ, 300);
    gsim::enable_fault(gsim::F_SPURIOUS_WAKE, 200);
    S = new Shared();
    int n = is("iriw") ? 4 : is("relseq_rmw") ? 3 : 2;
    int tid[4];
    gsim::thread_fn fns[4] = {t0, t1, t2, t3};
    for (int i = 0; i < n; i++) tid[i] = gsim::spawn(fns[i], nullptr);
    for (int i = 0; i < n; i++) gsim::join(tid[i]);
    if (is("sb_sc")) {
        if (S->r[0] == 0 && S->r[1] == 0)
            gsim::fail("litmus_forbidden", "store buffering outcome 0/0 with seq_cst");
    } else if (is("sb_acqrel")) {
        if (S->r[0] == 0 && S->r[1] == 0) gsim::probe("litmus.sb.both_zero");
    } else if (is("lb")) {
        if (S->r[0] == 1 && S->r[1] == 1)
            gsim::fail("litmus_forbidden", "load buffering outcome 1/1 (not modelled, must not appear)");
    } else if (is("iriw")) {
        if (S->r[0] == 1 && S->r[1] == 0 && S->r[2] == 1 && S->r[3] == 0)
            gsim::probe("litmus.iriw.disagree");
    } else if (is("mutex_hb") || is("recursive_mutex")) {
        if (S->data != 2) gsim::fail("litmus_forbidden", "mutex-protected counter is %d", S->data);
    } else if (is("adjacent_bytes")) {
        gsim::probe("litmus.adjacent_bytes.no_race");
    }
    delete S;
    S = nullptr;
}
}  // namespace

GSIM_WORKLOAD(wl_litmus, run, OPN)
