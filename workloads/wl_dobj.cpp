// wl_dobj — DelayedObjects<X> (C18): every future handed out for a key becomes
// ready exactly once — with the value set for the key, else the fulfillAll
// value, else X{} at destruction; unknown / completed keys are no-ops; the
// queries follow the same life cycle.  Consumers block in future::get()
// inside the simulation.
#include "common.h"
#include "lin.h"

#include <gmlc/concurrency/DelayedObjects.hpp>

#include <chrono>
#include <future>
#include <string>
#include <vector>

enum {
    OP_GETF = 0,   // a = key
    OP_POLL,       // a = key: poll my future for that key a few times
    OP_SET,        // a = key, b = form (copy/move), value derived from position
    OP_FULFILL,    //
    OP_FINISHED,   // a = key
    OP_RECOGNIZED, // a = key
    OP_COMPLETED,  // a = key
    OP_CONSUME,    // a = key: blocking get() — must be the thread's last op
    OP_DESTROY,    // recorded by thread 0 only
};
static const char* const OPN[] = {"get_future", "poll", "set", "fulfill_all", "finished",
                                  "is_recognized", "is_completed", "consume", "destroy"};

namespace {
constexpr int NKEYS = 6;  // 0,1: int keys 1,2   2,3: string keys "k","m"   4,5: unknown keys

struct State {
    std::vector<lin::Event> hist;
    int stage_threads = 0;
};
State* S;

/// a value type whose moved-from state differs from its default-constructed state
struct Rec {
    std::string tag{"default-constructed"};
    long v{0};
};
inline long to_long(const Rec& r) { return r.tag == "default-constructed" ? r.v : -777000 - (long)r.tag.size(); }
inline void from_long(long v, Rec& out) { out.v = v; }
/// a value type whose copy can throw — only while the harness arms it, i.e. inside a
/// setDelayedValue(key, const X&) call: that call then fails as a whole and must leave the
/// key exactly as it was (still pending, not "completed")
struct TRec {
    long v{0};
    static thread_local bool armed;
    TRec() = default;
    TRec(const TRec& o): v(o.v)
    {
        if (armed && gsim::fault_fires(gsim::F_THROW)) throw gsim::injected{90, 0};
    }
    TRec(TRec&& o) noexcept: v(o.v) {}
    TRec& operator=(const TRec&) = default;
    TRec& operator=(TRec&&) noexcept = default;
};
thread_local bool TRec::armed = false;
inline long to_long(const TRec& r) { return r.v; }
inline void from_long(long v, TRec& out) { out.v = v; }
template<class X>
struct Arm {
    Arm() {}
};
template<>
struct Arm<TRec> {
    Arm() { TRec::armed = true; }
    ~Arm() { TRec::armed = false; }
};
inline long to_long(int v) { return v; }
inline long to_long(const std::string& s) { return s.empty() ? 0 : std::stol(s.substr(1)); }
inline void from_long(long v, int& out) { out = (int)v; }
inline void from_long(long v, std::string& out) { out = "v" + std::to_string(v); }

// life-cycle model per key: 0 unknown, 1 pending, 2 completed, 3 finished
struct Model {
    struct St {
        int st[NKEYS] = {0};
        long val[NKEYS] = {0};  // value the key's future was (or will be) fulfilled with
        bool done[NKEYS] = {false};  // future fulfilled at some point
    };
    using State = St;
    State initial() const { return St(); }
    std::string key(const State& s) const
    {
        std::string k;
        for (int i = 0; i < NKEYS; i++)
            k += std::to_string(s.st[i]) + ":" + std::to_string(s.val[i]) + (s.done[i] ? "d" : "-");
        return k;
    }
    bool apply(State& s, const lin::Event& e) const
    {
        int k = (int)e.a;
        switch (e.op) {
            case OP_GETF:
                s.st[k] = 1;
                s.done[k] = false;
                return true;
            case OP_SET:
                if (s.st[k] == 1) {
                    s.st[k] = 2;
                    s.val[k] = e.b;
                    s.done[k] = true;
                }
                return true;
            case OP_FULFILL:
            case OP_DESTROY:
                for (int i = 0; i < NKEYS; i++)
                    if (s.st[i] == 1) {
                        s.st[i] = 2;
                        s.val[i] = e.op == OP_DESTROY ? 0 : e.b;
                        s.done[i] = true;
                    }
                return true;
            case OP_FINISHED:
                if (s.st[k] == 2) s.st[k] = 3;
                return true;
            case OP_RECOGNIZED: return (e.r != 0) == (s.st[k] == 1 || s.st[k] == 2);
            case OP_COMPLETED: return (e.r != 0) == (s.st[k] == 2);
            case OP_CONSUME:
            case OP_POLL:
                // r2 = 1 if a value was obtained, r = the value
                if (!e.r2) return !s.done[k] || true;  // "not ready yet" is always acceptable
                return s.done[k] && s.val[k] == e.r;
            default: return true;
        }
    }
};

int hbegin(int op, long a, long b)
{
    gsim::Oracle o;
    lin::Event e;
    e.tid = gsim::self();
    e.op = op;
    e.a = a;
    e.b = b;
    e.inv = gsim::seq();
    S->hist.push_back(e);
    return (int)S->hist.size() - 1;
}
void hend(int i, long r, long r2 = 0)
{
    gsim::Oracle o;
    S->hist[(size_t)i].r = r;
    S->hist[(size_t)i].r2 = r2;
    S->hist[(size_t)i].resp = gsim::seq();
}

template<class X>
struct WL {
    using DO = gmlc::concurrency::DelayedObjects<X>;
    DO* d;

    std::future<X> getf(int k)
    {
        switch (k) {
            case 0: return d->getFuture(1);
            case 1: return d->getFuture(2);
            case 2: return d->getFuture(std::string("k"));
            default: return d->getFuture(std::string("m"));
        }
    }
    static int ikey(int k) { return k == 0 ? 1 : k == 1 ? 2 : 9; }
    static std::string skey(int k) { return k == 2 ? "k" : k == 3 ? "m" : "zz"; }
    static bool is_int(int k) { return k == 0 || k == 1 || k == 4; }

    void body(int t)
    {
        int n = gsim::prog_len(t);
        std::future<X> futs[NKEYS];
        bool have[NKEYS] = {false};
        bool staged = false;
        for (int i = 0; i < n; i++) {
            gsim::Op op = gsim::prog_op(t, i);
            int k = op.a % NKEYS;
            long val = 100 * (t + 1) + i + 1;
            try {
                switch (op.code) {
                    case OP_GETF: {
                        if (k >= 4) break;
                        int e = hbegin(OP_GETF, k, 0);
                        futs[k] = getf(k);
                        have[k] = true;
                        hend(e, 0);
                        break;
                    }
                    case OP_POLL: {
                        if (k >= 4 || !have[k]) break;
                        for (int p = 0; p < 1 + op.b % 3 && have[k]; p++) {
                            if (futs[k].wait_for(std::chrono::seconds(0)) == std::future_status::ready) {
                                int e = hbegin(OP_POLL, k, 0);
                                X v = futs[k].get();
                                have[k] = false;
                                hend(e, to_long(v), 1);
                            } else
                                gsim::yield();
                        }
                        break;
                    }
                    case OP_SET: {
                        X v;
                        from_long(val, v);
                        int e = hbegin(OP_SET, k, val);
                        if (op.b & 1) {
                            if (is_int(k)) d->setDelayedValue(ikey(k), std::move(v));
                            else d->setDelayedValue(skey(k), std::move(v));
                        } else {
                            bool threw = false;
                            try {
                                Arm<X> arm;
                                if (is_int(k)) d->setDelayedValue(ikey(k), v);
                                else d->setDelayedValue(skey(k), v);
                            }
                            catch (const gsim::injected&) {
                                threw = true;
                            }
                            if (!threw && to_long(v) != val)
                                gsim::fail("argument_moved_from", "setDelayedValue(key, lvalue) left the "
                                           "caller's value object in a moved-from state");
                            if (threw) {
                                // the call failed: it never happened as far as the life cycle goes
                                if (gsim::held_exclusive())
                                    gsim::fail("lock_leaked_on_throw", "setDelayedValue left its lock held");
                                gsim::Oracle o;
                                S->hist[(size_t)e].op = -1;
                                S->hist[(size_t)e].optional = true;
                                gsim::probe("dobj.set_failed_with_exception");
                                break;
                            }
                        }
                        hend(e, 0);
                        break;
                    }
                    case OP_FULFILL: {
                        X v;
                        from_long(val, v);
                        int e = hbegin(OP_FULFILL, 0, val);
                        d->fulfillAllPromises(v);
                        hend(e, 0);
                        break;
                    }
                    case OP_FINISHED: {
                        int e = hbegin(OP_FINISHED, k, 0);
                        if (is_int(k)) d->finishedWithValue(ikey(k));
                        else d->finishedWithValue(skey(k));
                        hend(e, 0);
                        break;
                    }
                    case OP_RECOGNIZED: {
                        int e = hbegin(OP_RECOGNIZED, k, 0);
                        bool r = is_int(k) ? d->isRecognized(ikey(k)) : d->isRecognized(skey(k));
                        hend(e, r);
                        break;
                    }
                    case OP_COMPLETED: {
                        int e = hbegin(OP_COMPLETED, k, 0);
                        bool r = is_int(k) ? d->isCompleted(ikey(k)) : d->isCompleted(skey(k));
                        hend(e, r);
                        break;
                    }
                    case OP_CONSUME: {
                        if (k >= 4 || !have[k] || i != n - 1) break;
                        // last stage: from here on this thread only waits for its future
                        gsim::ctr_add(1, 1);
                        staged = true;
                        int e = hbegin(OP_CONSUME, k, 0);
                        X v = futs[k].get();
                        have[k] = false;
                        hend(e, to_long(v), 1);
                        gsim::probe("dobj.blocking_get_returned");
                        break;
                    }
                    default: break;
                }
            }
            catch (const std::future_error& fe) {
                gsim::fail("future_error", "std::future_error (%s) escaped op %s on key %d",
                           fe.what(), OPN[op.code], k);
            }
            if (gsim::held_exclusive())
                gsim::fail("leaked_lock", "a DelayedObjects call returned with its mutex held");
        }
        if (!staged) gsim::ctr_add(1, 1);
        // futures still pending are dropped here (allowed: they were handed out and abandoned)
    }
    struct Body {
        WL* w;
        void operator()(int t) { w->body(t); }
    };
    struct Arg {
        WL* w;
        int t;
    };
    static void tramp(void* p)
    {
        Arg* a = (Arg*)p;
        a->w->body(a->t);
    }

    void run()
    {
        State st;
        S = &st;
        if (!gsim::prog_loaded()) {
            int n = 2 + gsim::gen_int(3);
            gsim::prog_reset(n);
            bool requested[4] = {false};
            for (int t = 0; t < n; t++) {
                int k = 1 + gsim::gen_int(5);
                int mykeys[4], nmy = 0;
                for (int i = 0; i < k; i++) {
                    int r = gsim::gen_int(100);
                    gsim::Op op{OP_SET, gsim::gen_int(4), gsim::gen_int(4), 0};
                    if (r < 22) {
                        int key = gsim::gen_int(4);
                        if (requested[key]) {
                            op.code = OP_SET;
                            op.a = key;
                        } else {
                            requested[key] = true;
                            op.code = OP_GETF;
                            op.a = key;
                            mykeys[nmy++] = key;
                        }
                    } else if (r < 30 && nmy) {
                        op.code = OP_POLL;
                        op.a = mykeys[gsim::gen_int(nmy)];
                    } else if (r < 62) {
                        op.code = OP_SET;
                        op.a = gsim::gen_int(8) == 0 ? 4 + gsim::gen_int(2) : gsim::gen_int(4);
                    } else if (r < 70) {
                        op.code = OP_FULFILL;
                    } else if (r < 80) {
                        op.code = OP_FINISHED;
                        op.a = gsim::gen_int(5);
                    } else if (r < 90) {
                        op.code = OP_RECOGNIZED;
                        op.a = gsim::gen_int(6);
                    } else {
                        op.code = OP_COMPLETED;
                        op.a = gsim::gen_int(6);
                    }
                    gsim::prog_add(t, op);
                }
                if (nmy && gsim::gen_int(3) != 0)
                    gsim::prog_add(t, {OP_CONSUME, mykeys[gsim::gen_int(nmy)], 0, 0});
            }
        }
        // validate: each key requested at most once
        {
            int cnt[4] = {0};
            for (int t = 0; t < gsim::prog_nthreads(); t++)
                for (int i = 0; i < gsim::prog_len(t); i++) {
                    gsim::Op op = gsim::prog_op(t, i);
                    if (op.code == OP_GETF && op.a % NKEYS < 4 && ++cnt[op.a % NKEYS] > 1)
                        gsim::fail("harness", "a key is requested twice");
                }
        }
        d = new DO();
        int n = gsim::prog_nthreads();
        Arg args[gsim::MAX_THREADS];
        int tids[gsim::MAX_THREADS];
        for (int t = 0; t < n; t++) {
            args[t] = Arg{this, t};
            tids[t] = gsim::spawn(tramp, &args[t]);
        }
        // wait until every thread has finished or is in its final blocking get()
        gsim::ctr_wait_ge(1, n);
        for (int y = 0; y < gsim::knob("linger", 0, 3); y++) gsim::yield();
        // destroying the container fulfils whatever is still pending with X{}
        {
            int e = hbegin(OP_DESTROY, 0, 0);
            try {
                delete d;
            }
            catch (const std::future_error& fe) {
                gsim::fail("future_error", "std::future_error (%s) escaped the destructor", fe.what());
            }
            hend(e, 0);
        }
        d = nullptr;
        for (int t = 0; t < n; t++) gsim::join(tids[t]);
        {
            gsim::Oracle o;
            if (st.hist.size() <= 22) {
                Model m;
                lin::Checker<Model> chk(m, st.hist);
                if (!chk.check()) {
                    std::string desc;
                    for (auto& e : st.hist) {
                        char buf[128];
                        snprintf(buf, sizeof buf, "[T%d %s(k%ld,%ld)->%ld/%ld @%llu..%llu] ", e.tid,
                                 OPN[e.op], e.a, e.b, e.r, e.r2, (unsigned long long)e.inv,
                                 (unsigned long long)e.resp);
                        desc += buf;
                    }
                    gsim::fail("not_linearizable", "no life-cycle history explains: %s", desc.c_str());
                }
                gsim::probe("dobj.lin_checked");
            }
        }
        S = nullptr;
    }
};

void run()
{
    gsim::check_races(gsim::param_int("races", 0) != 0);
    gsim::enable_fault(gsim::F_STALE_READ, gsim::knob("stale", 0, 1) * 200);
    switch (gsim::knob("xtype", 0, 3)) {
        case 0: WL<int>().run(); break;
        case 1: WL<std::string>().run(); break;
        case 2: WL<Rec>().run(); break;
        default:
            gsim::enable_fault(gsim::F_THROW, 250);
            WL<TRec>().run();
            break;
    }
}
}  // namespace

GSIM_WORKLOAD(wl_dobj, run, OPN)
