// wl_rcu_reent — rcu_list<T, std::recursive_mutex> whose element constructor
// re-enters the same list (C12).  The headers document std::recursive_mutex as a
// supported mutex type; with it a constructor run by emplace_* may itself push
// to the list.  The nested mutation completes before the outer node is linked,
// and nobody else can get in between (the outer call holds the mutex), so the
// pair behaves like two consecutive operations of the calling thread:
//   * nothing inserted is lost or duplicated,
//   * a nested push_back inside emplace_back ends up immediately before the
//     outer element, a nested push_front inside emplace_front immediately
//     after it.
#include "common.h"

#include <gmlc/libguarded/rcu_guarded.hpp>
#include <gmlc/libguarded/rcu_list.hpp>

#include <map>
#include <mutex>
#include <set>
#include <vector>

enum { OP_EMPLACE_BACK = 0, OP_EMPLACE_FRONT, OP_PUSH_BACK, OP_PUSH_FRONT, OP_TRAVERSE };
static const char* const OPN[] = {"emplace_back", "emplace_front", "push_back", "push_front", "traverse"};

namespace {
struct Elem;
using List = gmlc::libguarded::rcu_list<Elem, std::recursive_mutex>;
using G = gmlc::libguarded::rcu_guarded<List>;

struct Reenter {
    long v;
    int nested;  // 0 none, 1 push_back(child), 2 push_front(child)
};
__thread G::write_handle* tl_handle;

struct Elem {
    long v;
    Elem(long x): v(x) { reg(); }
    Elem(const Elem& o): v(o.v) { reg(); }
    Elem(const Reenter& r);
    ~Elem();
    void reg();
};

struct State {
    G* g;
    std::set<const Elem*> live;  // oracle: constructed and not yet destroyed (C13)
    long constructed = 0, destroyed = 0;
    std::set<long> inserted;  // oracle
    std::vector<std::pair<long, long>> before;  // (x, y): x must sit immediately before y
};
State* S;

void Elem::reg()
{
    gsim::Oracle o;
    if (!S) return;
    S->live.insert(this);
    S->constructed++;
}
Elem::~Elem()
{
    gsim::Oracle o;
    if (!S) return;
    if (!S->live.erase(this))
        gsim::fail("double_destroy", "element at %p destroyed twice (or never constructed)", (void*)this);
    S->destroyed++;
}
Elem::Elem(const Reenter& r): v(r.v)
{
    reg();
    if (r.nested && tl_handle) {
        long child = r.v + 50;
        {
            gsim::Oracle o;
            S->inserted.insert(child);
        }
        if (r.nested == 1) (*tl_handle)->push_back(Elem(child));
        else (*tl_handle)->push_front(Elem(child));
        gsim::probe("reent.nested_push_from_constructor");
    }
}

void body(int t)
{
    int n = gsim::prog_len(t);
    for (int i = 0; i < n; i++) {
        gsim::Op op = gsim::prog_op(t, i);
        long val = 100 * (t + 1) + i + 1;
        for (int y = 0; y < op.b; y++) gsim::yield();
        if (op.code == OP_TRAVERSE) {
            auto h = static_cast<const G*>(S->g)->lock_read();
            std::set<long> seen;
            for (auto it = h->begin(); it != h->end(); ++it) {
                long v = it->v;
                gsim::Oracle o;
                if (!S->inserted.count(v))
                    gsim::fail("phantom_value", "a traversal visited %ld, which was never inserted", v);
                if (!seen.insert(v).second)
                    gsim::fail("visited_twice", "a traversal visited %ld twice", v);
            }
            continue;
        }
        auto h = S->g->lock_write();
        tl_handle = &h;
        {
            gsim::Oracle o;
            S->inserted.insert(val);
            if (op.code == OP_EMPLACE_BACK && op.a == 1) S->before.emplace_back(val + 50, val);
            if (op.code == OP_EMPLACE_FRONT && op.a == 2) S->before.emplace_back(val, val + 50);
        }
        switch (op.code) {
            case OP_EMPLACE_BACK: h->emplace_back(Reenter{val, op.a}); break;
            case OP_EMPLACE_FRONT: h->emplace_front(Reenter{val, op.a}); break;
            case OP_PUSH_BACK: h->push_back(Elem(val)); break;
            default: h->push_front(Elem(val)); break;
        }
        tl_handle = nullptr;
    }
}

void run()
{
    gsim::check_races(gsim::param_int("races", 0) != 0);
    if (!gsim::prog_loaded()) {
        int n = 1 + gsim::gen_int(3);
        gsim::prog_reset(n);
        for (int t = 0; t < n; t++) {
            int k = 1 + gsim::gen_int(4);
            for (int i = 0; i < k; i++) {
                int c = gsim::gen_int(8);
                gsim::Op op{c < 3 ? OP_EMPLACE_BACK : c < 5 ? OP_EMPLACE_FRONT : c == 5 ? OP_PUSH_BACK :
                                c == 6                                                   ? OP_PUSH_FRONT :
                                                                                           OP_TRAVERSE,
                            gsim::gen_int(3), gsim::gen_int(3) == 0 ? 1 : 0, 0};
                gsim::prog_add(t, op);
            }
        }
    }
    for (int t = 0; t < gsim::prog_nthreads(); t++)
        if (gsim::prog_len(t) > 40) gsim::fail("harness", "program too long");
    State st;
    S = &st;
    st.g = new G();
    wl::run_program(body);
    {
        auto h = static_cast<const G*>(st.g)->lock_read();
        std::vector<long> out;
        for (auto it = h->begin(); it != h->end(); ++it) out.push_back(it->v);
        gsim::Oracle o;
        std::set<long> got(out.begin(), out.end());
        if (got.size() != out.size()) gsim::fail("visited_twice", "the final list holds a value twice");
        for (long v : st.inserted)
            if (!got.count(v))
                gsim::fail("lost_element", "%ld was inserted and never erased but is not in the final "
                           "list (%zu of %zu elements present)", v, out.size(), st.inserted.size());
        for (long v : got)
            if (!st.inserted.count(v)) gsim::fail("phantom_value", "the final list holds %ld", v);
        std::map<long, size_t> pos;
        for (size_t i = 0; i < out.size(); i++) pos[out[i]] = i;
        for (auto& p : st.before)
            if (pos[p.first] + 1 != pos[p.second])
                gsim::fail("not_serialisable", "%ld (pushed by the constructor of its neighbour while "
                           "the outer call held the mutex) must sit immediately before %ld; positions "
                           "%zu and %zu", p.first, p.second, pos[p.first], pos[p.second]);
    }
    delete st.g;
    {
        // C13: the list destroys everything it allocated, also elements that were pushed
        // from inside another element's constructor
        gsim::Oracle o;
        if (!st.live.empty())
            gsim::fail("leak", "%zu elements were never destroyed although all handles are released "
                       "and the list is gone (constructed %ld, destroyed %ld)", st.live.size(),
                       st.constructed, st.destroyed);
    }
    S = nullptr;
}
}  // namespace

GSIM_WORKLOAD(wl_rcu_reent, run, OPN)
