// wl_deferred2 — two deferred_guarded objects of the same type whose queued
// modifications touch each other (C06): a function queued on X, when it is
// finally applied, submits a modification to Y and may read Y — so Y's pending
// modifications are drained from inside X's drain, on the same thread.  Each
// object on its own must still apply every accepted function exactly once and
// strand nothing; per-object state that is accidentally shared between objects
// (a per-thread scratch buffer, a static) shows up here and nowhere else.
#include "common.h"

#include <gmlc/libguarded/deferred_guarded.hpp>

#include <future>
#include <map>
#include <mutex>
#include <shared_mutex>
#include <vector>

enum { OP_X_PLAIN = 0, OP_X_TOUCH, OP_Y_PLAIN, OP_X_READ, OP_Y_READ, OP_Y_ASYNC, OP_X_TOUCH_READ };
static const char* const OPN[] = {"x_detach", "x_detach_touching_y", "y_detach", "x_read",
                                  "y_read",   "y_async",             "x_detach_reading_y"};

namespace {
using wl::Cell;
struct Info {
    int obj;  // 0: X, 1: Y
    int execs = 0;
    bool accepted = false;  // the submitting call has returned
};
struct State {
    std::map<int, Info> fn;
    std::vector<std::pair<int, std::future<long>>> futs;
};
State* S;

void on_exec(int id)
{
    gsim::Oracle o;
    Info& in = S->fn[id];
    if (++in.execs > 1)
        gsim::fail("executed_twice", "function #%d (object %c) was executed %d times", id,
                   in.obj ? 'Y' : 'X', in.execs);
}
void registered(int id, int obj)
{
    gsim::Oracle o;
    S->fn[id].obj = obj;
}
void accepted(int id)
{
    gsim::Oracle o;
    S->fn[id].accepted = true;
}

template<class M>
struct WL {
    using DG = gmlc::libguarded::deferred_guarded<Cell, M>;
    DG* x;
    DG* y;

    void submit_y(int id)
    {
        registered(id, 1);
        y->modify_detach([id](Cell& c) {
            c.rmw_add(1, 0);
            on_exec(id);
        });
        accepted(id);
    }
    void body(int t)
    {
        int n = gsim::prog_len(t);
        for (int i = 0; i < n; i++) {
            gsim::Op op = gsim::prog_op(t, i);
            int id = 100 * (t + 1) + 2 * i + 1;
            const DG& cx = *x;
            const DG& cy = *y;
            switch (op.code) {
                case OP_X_PLAIN:
                    registered(id, 0);
                    x->modify_detach([id](Cell& c) {
                        c.rmw_add(1, 0);
                        on_exec(id);
                    });
                    accepted(id);
                    break;
                case OP_X_TOUCH:
                case OP_X_TOUCH_READ: {
                    registered(id, 0);
                    WL* self = this;
                    bool rd = op.code == OP_X_TOUCH_READ;
                    x->modify_detach([id, self, rd](Cell& c) {
                        c.rmw_add(1, 0);
                        on_exec(id);
                        // applied now (directly or from somebody's drain of X): hand a follow-up to Y
                        self->submit_y(id + 1);
                        if (rd) {
                            auto h = static_cast<const DG*>(self->y)->lock_shared();  // drains Y if it can
                            (void)h->read();
                        }
                        gsim::probe("deferred2.x_function_touched_y");
                    });
                    accepted(id);
                    break;
                }
                case OP_Y_PLAIN: submit_y(id); break;
                case OP_Y_ASYNC: {
                    registered(id, 1);
                    auto f = y->modify_async([id](Cell& c) {
                        c.rmw_add(1, 0);
                        on_exec(id);
                        return 10L * id;
                    });
                    accepted(id);
                    gsim::Oracle o;
                    S->futs.emplace_back(id, std::move(f));
                    break;
                }
                case OP_X_READ: {
                    auto h = cx.lock_shared();
                    long v = h->read();
                    for (int k = 0; k <= op.a; k++) gsim::yield();
                    if (h->read() != v) gsim::fail("unstable", "X changed under a shared handle");
                    break;
                }
                default: {
                    auto h = cy.lock_shared();
                    long v = h->read();
                    for (int k = 0; k <= op.a; k++) gsim::yield();
                    if (h->read() != v) gsim::fail("unstable", "Y changed under a shared handle");
                    break;
                }
            }
            if (gsim::held_exclusive() + gsim::held_shared())
                gsim::fail("leaked_lock", "an operation returned with a lock held");
        }
    }
    struct Body {
        WL* w;
        void operator()(int t) { w->body(t); }
    };
    void run()
    {
        State st;
        S = &st;
        Cell::W = 1;
        Cell::tracked = nullptr;
        x = new DG();
        y = new DG();
        Body b{this};
        wl::run_program(b);
        gsim::faults_off();
        // quiescence: draining X may hand more work to Y, so X first, then Y
        long vx, vy;
        {
            auto h = static_cast<const DG*>(x)->lock_shared();
            vx = h->read();
        }
        {
            auto h = static_cast<const DG*>(y)->lock_shared();
            vy = h->read();
        }
        {
            gsim::Oracle o;
            long nx = 0, ny = 0;
            for (auto& kv : st.fn) {
                if (kv.second.accepted && kv.second.execs == 0)
                    gsim::fail("stranded", "function #%d on %c was accepted but has not been applied by "
                               "the next lock_shared made while no handle was held", kv.first,
                               kv.second.obj ? 'Y' : 'X');
                (kv.second.obj ? ny : nx) += kv.second.execs;
            }
            if (vx != nx || vy != ny)
                gsim::fail("lost_update", "X = %ld after %ld executed functions, Y = %ld after %ld", vx,
                           nx, vy, ny);
        }
        for (auto& pf : st.futs) {
            if (pf.second.wait_for(std::chrono::seconds(0)) != std::future_status::ready)
                gsim::fail("future_not_ready", "the future of function #%d is not ready at quiescence",
                           pf.first);
            long r = pf.second.get();
            if (r != 10L * pf.first) gsim::fail("wrong_result", "future of #%d holds %ld", pf.first, r);
        }
        delete x;
        delete y;
        S = nullptr;
    }
};

void run()
{
    gsim::check_races(gsim::param_int("races", 0) != 0);
    if (!gsim::prog_loaded()) {
        int n = 2 + gsim::gen_int(3);
        gsim::prog_reset(n);
        for (int t = 0; t < n; t++) {
            int k = 1 + gsim::gen_int(4);
            for (int i = 0; i < k; i++) {
                static const int pool[] = {OP_X_PLAIN, OP_X_TOUCH, OP_X_TOUCH,      OP_X_TOUCH_READ, OP_Y_PLAIN,
                                           OP_Y_PLAIN, OP_X_READ,  OP_X_READ,       OP_Y_READ,       OP_Y_READ,
                                           OP_Y_ASYNC};
                gsim::prog_add(t, {pool[gsim::gen_int(11)], gsim::gen_int(3), 0, 0});
            }
        }
    }
    gsim::enable_fault(gsim::F_SPURIOUS_TRYLOCK, gsim::knob("spurious_try", 0, 1) * 100);
    if (gsim::knob("mutex", 0, 1)) {
        WL<std::shared_timed_mutex> w;
        w.run();
    } else {
        WL<std::mutex> w;
        w.run();
    }
}
}  // namespace

GSIM_WORKLOAD(wl_deferred2, run, OPN)
