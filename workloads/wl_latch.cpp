// wl_latch — gmlc::concurrency::Latch (C10): wait returns only after `count`
// arrivals, every waiter returns once they happened (no lost wake-up across
// the unlocked fast-path check), arrive never waits for others.
#include "common.h"

#include <gmlc/concurrency/Latch.hpp>

#include <chrono>
#include <thread>

enum { OP_ARRIVE = 0, OP_WAIT, OP_ARRIVE_AND_WAIT, OP_LATE_WAIT };
static const char* const OPN[] = {"arrive", "wait", "arrive_and_wait", "late_wait"};

namespace {
struct State {
    gmlc::concurrency::Latch* latch;
    int count = 1;
    int arrivals_invoked = 0;
    int arrivals_done = 0;
    int total_arrivals = 0;  // static: arrival ops in the program
    long datum[gsim::MAX_THREADS + 1] = {0};  // plain data written before arriving
    bool writes[gsim::MAX_THREADS + 1] = {false};
};
State* S;

void read_published()
{
    // with exactly `count` arrivals in the whole program every arrival happened
    // before the latch opened, so everything the arrivers wrote is visible
    if (S->total_arrivals != S->count) return;
    for (int t = 0; t <= gsim::MAX_THREADS; t++)
        if (S->writes[t] && S->datum[t] != 1000 + t)
            gsim::fail("stale_publication", "data written by thread slot %d before arrive() reads "
                       "%ld after the latch opened", t, S->datum[t]);
    gsim::probe("latch.publication_checked");
}

void check_open(const char* what)
{
    read_published();
    gsim::Oracle o;
    if (S->arrivals_invoked < S->count)
        gsim::fail("early_open", "%s returned when only %d of the %d required arrivals had even "
                   "started", what, S->arrivals_invoked, S->count);
    if (gsim::held_exclusive()) gsim::fail("leaked_lock", "%s returned with a mutex held", what);
}

void body(int t)
{
    int n = gsim::prog_len(t);
    for (int i = 0; i < n; i++) {
        gsim::Op op = gsim::prog_op(t, i);
        for (int y = 0; y < op.a; y++) gsim::yield();
        // a slow thread: long (in simulated time) after the others began to wait
        if (op.b == 1) std::this_thread::sleep_for(std::chrono::milliseconds(100));
        else if (op.b == 2) std::this_thread::sleep_for(std::chrono::seconds(3));
        else if (op.b == 3) std::this_thread::sleep_for(std::chrono::hours(2));
        switch (op.code) {
            case OP_ARRIVE:
                S->datum[t] = 1000 + t;
                {
                    gsim::Oracle o;
                    S->arrivals_invoked++;
                }
                S->latch->arrive();
                gsim::ctr_add(1, 1);
                break;
            case OP_WAIT:
                S->latch->wait();
                check_open("wait()");
                break;
            case OP_ARRIVE_AND_WAIT:
                S->datum[t] = 1000 + t;
                {
                    gsim::Oracle o;
                    S->arrivals_invoked++;
                }
                gsim::ctr_add(1, 1);  // counted before: the arrival is the first half
                S->latch->arrive_and_wait();
                check_open("arrive_and_wait()");
                break;
            case OP_LATE_WAIT:
                // a waiter that starts after the latch has opened
                gsim::ctr_wait_ge(1, S->count);
                S->latch->wait();
                check_open("late wait()");
                break;
            default: break;
        }
    }
}

void run()
{
    gsim::check_races(gsim::param_int("races", 0) != 0);
    State st;
    S = &st;
    st.count = gsim::knob("count", 0, 3);  // 0: open from the start
    if (!gsim::prog_loaded()) {
        int n = 2 + gsim::gen_int(4);
        gsim::prog_reset(n);
        if (gsim::gen_int(12) == 0) {
            // lone arrivals on a latch nobody waits for: arrive must simply return
            int k = 1 + gsim::gen_int(2);
            for (int i = 0; i < k; i++) gsim::prog_add(0, {OP_ARRIVE, 0, 0, 0});
        } else {
            int free_arrivals = 0;
            for (int t = 0; t < n; t++) {
                int role = gsim::gen_int(5);
                int y = gsim::gen_int(3) == 0 ? 1 + gsim::gen_int(2) : 0;
                if (role <= 1) {
                    int k = 1 + gsim::gen_int(3);
                    for (int i = 0; i < k; i++)
                        gsim::prog_add(t, {OP_ARRIVE, y, gsim::gen_int(6) == 0 ? 1 + gsim::gen_int(3) : 0, 0});
                    free_arrivals += k;
                    if (gsim::gen_int(3) == 0) gsim::prog_add(t, {OP_WAIT, 0, 0, 0});
                } else if (role == 2) {
                    gsim::prog_add(t, {OP_WAIT, y, 0, 0});
                    if (gsim::gen_int(3) == 0) gsim::prog_add(t, {OP_WAIT, 0, 0, 0});
                } else if (role == 3) {
                    gsim::prog_add(t, {OP_ARRIVE_AND_WAIT, y, 0, 0});
                    free_arrivals++;
                } else {
                    gsim::prog_add(t, {OP_LATE_WAIT, y, 0, 0});
                }
            }
            // make sure the latch can open: top up with plain arrivals in an extra thread
            for (; free_arrivals < st.count; free_arrivals++)
                gsim::prog_add(n, {OP_ARRIVE, 0, 0, 0});
        }
    }
    // ---- validate: arrivals that can happen without first passing a wait
    int free_arrivals = 0, waits = 0;
    for (int t = 0; t < gsim::prog_nthreads(); t++) {
        bool blocked = false;
        for (int i = 0; i < gsim::prog_len(t); i++) {
            int c = gsim::prog_op(t, i).code;
            if (c == OP_ARRIVE || c == OP_ARRIVE_AND_WAIT) {
                st.total_arrivals++;
                st.writes[t] = true;
            }
            if ((c == OP_ARRIVE || c == OP_ARRIVE_AND_WAIT) && !blocked) free_arrivals++;
            if (c != OP_ARRIVE) {
                blocked = true;
                waits++;
            }
        }
    }
    if (waits && free_arrivals < st.count)
        gsim::fail("harness", "program cannot open the latch (%d free arrivals, count %d)",
                   free_arrivals, st.count);
    gsim::enable_fault(gsim::F_SPURIOUS_WAKE, gsim::knob("spurious", 0, 2) * 150);
    gsim::enable_fault(gsim::F_STALE_READ, gsim::knob("stale", 0, 1) * 200);
    // (the unchanged Latch has no timed wait: this matters only for rewrites that introduce one)
    gsim::enable_fault(gsim::F_TIME_JUMP, gsim::knob("time_jump", 0, 2) * 30);
    // A second, independent latch that is used (and blocked on) BEFORE the latch under test:
    // latches share nothing, whatever one of them did earlier in the same process.
    gmlc::concurrency::Latch* other = nullptr;
    int other_waiter = -1;
    int second = gsim::knob("second_latch", 0, 2);
    if (second) {
        other = new gmlc::concurrency::Latch(1);
        other_waiter = gsim::spawn(
            [](void* p) {
                gsim::ev_set(40);
                static_cast<gmlc::concurrency::Latch*>(p)->wait();
            },
            other);
        gsim::ev_wait(40);
        for (int y = 0; y < 6; y++) gsim::yield();  // let it block
        if (second == 1) {
            other->arrive();  // open before the latch under test is used
            gsim::join(other_waiter);
            other_waiter = -1;
        }
        gsim::probe("latch.second_latch_used_first");
    }
    st.latch = new gmlc::concurrency::Latch(st.count);
    wl::run_program(body);
    if (other_waiter >= 0) {
        other->arrive();  // (second == 2: it stayed closed while the latch under test was used)
        gsim::join(other_waiter);
    }
    delete st.latch;
    delete other;
    S = nullptr;
}
}  // namespace

GSIM_WORKLOAD(wl_latch, run, OPN)
