// wl_deferred — deferred_guarded<Cell, M> (C06): every submitted function is
// executed exactly once, exclusively, in an order that respects real time and
// each thread's own order; nothing accepted is stranded; modify_async futures
// hold the function's value or exception.  Also serves C07 (races=1).
#include "common.h"

#include <gmlc/libguarded/deferred_guarded.hpp>

#include <chrono>
#include <future>
#include <memory>
#include <vector>

using wl::Cell;

enum { OP_DETACH = 0, OP_ASYNC_RET, OP_ASYNC_VOID, OP_ASYNC_THROW, OP_READ, OP_LOAD, OP_DETACH_THROW, OP_ASYNC_VOID_THROW, OP_DETACH_LVALUE,
       OP_DETACH_WAITS, OP_HELPER };
static const char* const OPN[] = {"modify_detach", "modify_async_ret", "modify_async_void",
                                  "modify_async_throw", "read", "load", "modify_detach_throw",
                                  "modify_async_void_throw", "modify_detach_lvalue", "modify_detach_waits",
                                  "helper_submit"};

namespace {
struct Sub {
    int id;
    int kind;
    int tid;
    uint64_t inv, resp, exec;
    int execs;
    int exec_tid;
    bool exec_in_submit;
};
struct State {
    std::vector<Sub> subs;
    std::vector<std::pair<int, std::future<long>>> futs_ret;
    std::vector<std::pair<int, std::future<void>>> futs_void;
    int in_submit[gsim::MAX_THREADS] = {0};  // id being submitted by that thread (+1), 0 none
    int in_read[gsim::MAX_THREADS] = {0};
};
State* S;

Sub& sub(int id)
{
    for (auto& s : S->subs)
        if (s.id == id) return s;
    gsim::fail("harness", "unknown id");
}

void on_exec(int id)
{
    gsim::Oracle o;
    Sub& s = sub(id);
    s.execs++;
    if (s.execs > 1)
        gsim::fail("executed_twice", "function #%d was executed %d times", id, s.execs);
    s.exec = gsim::seq();
    s.exec_tid = gsim::self();
    s.exec_in_submit = S->in_submit[gsim::self()] == id + 1;
    // every submission that had returned before this one was invoked must have run
    for (auto& p : S->subs)
        if (p.id != id && p.resp != ~0ull && p.resp <= s.inv && p.execs == 0)
            gsim::fail("order", "function #%d (submitted at %llu) runs before function #%d whose "
                       "submission had returned at %llu", id, (unsigned long long)s.inv, p.id,
                       (unsigned long long)p.resp);
    if (s.exec_in_submit) gsim::probe("deferred.direct_path");
    else if (S->in_submit[gsim::self()]) gsim::probe("deferred.drained_by_submitter");
    else if (S->in_read[gsim::self()]) gsim::probe("deferred.drained_by_reader");
    else gsim::probe("deferred.drained_at_quiescence");
}

struct Fn {
    int id;
    int hold;
    void operator()(Cell& c) const
    {
        c.rmw_add(1, hold);
        on_exec(id);
    }
};
struct FnRet {
    int id;
    int hold;
    long operator()(Cell& c) const
    {
        c.rmw_add(1, hold);
        on_exec(id);
        return 10L * id;
    }
};
/// a stateful callable that the caller keeps and submits twice as a named
/// object (lvalue): the library must copy it, not gut it
struct LvalueFn {
    std::shared_ptr<int> state;  // by-value state: a move leaves it empty
    int id_first, id_second;
    void operator()(Cell& c) const
    {
        if (!state)
            gsim::fail("functor_moved_from", "a submitted function runs in a moved-from state: "
                       "modify_detach moved out of the caller's named callable");
        int n = ++*state;
        c.rmw_add(1, 0);
        on_exec(n == 1 ? id_first : id_second);
    }
};
/// a modification that, while it runs, waits for ANOTHER thread's submission to the same
/// object to return (hand-over to a helper).  A submission never waits for running
/// modifications (it is applied directly or queued), so this cannot deadlock.
struct FnWaits {
    int id;
    int k;
    void operator()(Cell& c) const
    {
        c.rmw_add(1, 0);
        on_exec(id);
        gsim::ev_set(20 + k);
        gsim::ev_wait(30 + k);
        gsim::probe("deferred.modification_waited_for_a_submitter");
    }
};
struct FnVoidThrow {
    int id;
    void operator()(Cell& c) const
    {
        c.rmw_add(1, 0);
        on_exec(id);
        throw gsim::injected{41, id};
    }
};
struct FnThrow {
    int id;
    long operator()(Cell& c) const
    {
        c.rmw_add(1, 0);
        on_exec(id);
        throw gsim::injected{40, id};
    }
};

template<class DG>
struct WL {
    DG* dg;

    int begin_submit(int id, int kind)
    {
        gsim::Oracle o;
        S->subs.push_back(Sub{id, kind, gsim::self(), gsim::seq(), ~0ull, ~0ull, 0, -1, false});
        S->in_submit[gsim::self()] = id + 1;
        return id;
    }
    void end_submit(int id)
    {
        gsim::Oracle o;
        sub(id).resp = gsim::seq();
        S->in_submit[gsim::self()] = 0;
        if (sub(id).execs == 0) gsim::probe("deferred.queued_path");
    }

    void run_op(gsim::Op op, int t, int i)
    {
        using namespace std::chrono_literals;
        int id = 100 * (t + 1) + i + 1;
        const DG& cdg = *dg;
        switch (op.code) {
            case OP_DETACH:
                begin_submit(id, op.code);
                dg->modify_detach(Fn{id, op.a});
                end_submit(id);
                break;
            case OP_DETACH_THROW: {
                // direct path: the exception reaches the caller; queued path: it is
                // captured by the (discarded) task.  Either way no lock may be left
                // behind and later tasks must still run.
                begin_submit(id, op.code);
                int held0 = gsim::held_exclusive() + gsim::held_shared();
                try {
                    dg->modify_detach(FnThrow{id});
                    gsim::probe("deferred.throw_captured_or_queued");
                }
                catch (const gsim::injected&) {
                    gsim::probe("deferred.throw_propagated");
                }
                if (gsim::held_exclusive() + gsim::held_shared() != held0)
                    gsim::fail("lock_leaked_on_throw", "modify_detach with a throwing function "
                               "left a lock held");
                end_submit(id);
                break;
            }
            case OP_ASYNC_RET: {
                begin_submit(id, op.code);
                auto f = dg->modify_async(FnRet{id, op.a});
                end_submit(id);
                gsim::Oracle o;
                S->futs_ret.emplace_back(id, std::move(f));
                break;
            }
            case OP_ASYNC_VOID: {
                begin_submit(id, op.code);
                auto f = dg->modify_async(Fn{id, op.a});
                end_submit(id);
                gsim::Oracle o;
                S->futs_void.emplace_back(id, std::move(f));
                break;
            }
            case OP_DETACH_WAITS: {
                begin_submit(id, op.code);
                dg->modify_detach(FnWaits{id, op.a % 3});
                end_submit(id);
                // make sure it gets applied while the helper is still around
                for (;;) {
                    bool done;
                    {
                        gsim::Oracle o;
                        done = sub(id).execs > 0;
                    }
                    if (done) break;
                    {
                        auto h = cdg.lock_shared();
                        (void)h->read();
                    }
                    gsim::yield();
                }
                break;
            }
            case OP_HELPER:
                gsim::ev_wait(20 + op.a % 3);
                begin_submit(id, OP_DETACH);
                dg->modify_detach(Fn{id, 0});
                end_submit(id);
                gsim::ev_set(30 + op.a % 3);
                break;
            case OP_DETACH_LVALUE: {
                int id2 = id + 50;
                // the caller's named callable lives on the heap here, so that a library that
                // keeps a reference to it instead of a copy is caught deterministically when
                // the caller destroys it (a dangling reference into a thread's stack would
                // read whatever the stack holds by then)
                std::unique_ptr<LvalueFn> lfp(new LvalueFn{std::make_shared<int>(0), id, id2});
                LvalueFn& lf = *lfp;
                begin_submit(id, op.code);
                dg->modify_detach(lf);
                end_submit(id);
                if (!lf.state)
                    gsim::fail("functor_moved_from", "modify_detach(lvalue) left the caller's "
                               "callable in a moved-from state");
                for (int y = 0; y < op.a; y++) gsim::yield();
                begin_submit(id2, op.code);
                dg->modify_detach(lf);
                end_submit(id2);
                lfp.reset();  // the caller is done with it; queued copies must be independent
                break;
            }
            case OP_ASYNC_VOID_THROW: {
                begin_submit(id, op.code);
                auto f = dg->modify_async(FnVoidThrow{id});
                end_submit(id);
                gsim::Oracle o;
                S->futs_void.emplace_back(id, std::move(f));
                break;
            }
            case OP_ASYNC_THROW: {
                begin_submit(id, op.code);
                auto f = dg->modify_async(FnThrow{id});
                end_submit(id);
                gsim::Oracle o;
                S->futs_ret.emplace_back(id, std::move(f));
                break;
            }
            case OP_READ: {
                {
                    gsim::Oracle o;
                    S->in_read[gsim::self()] = 1;
                }
                {
                    auto h = [&] {
                        switch (op.b & 3) {
                            case 1: return cdg.try_lock_shared();
                            case 2:
                                if constexpr (timed) return cdg.try_lock_shared_for(40us);
                                else return cdg.lock_shared();
                            case 3:
                                if constexpr (timed)
                                    return cdg.try_lock_shared_until(std::chrono::steady_clock::now() + 40us);
                                else return cdg.try_lock_shared();
                            default: return cdg.lock_shared();
                        }
                    }();
                    {
                        gsim::Oracle o;
                        S->in_read[gsim::self()] = 2;  // holding: no drain from here on
                    }
                    if (h) {
                        long v = h->read();
                        for (int y = 0; y < op.a; y++) gsim::yield();
                        long v2 = h->read();
                        if (v != v2)
                            gsim::fail("unstable", "value under a shared handle changed from %ld "
                                       "to %ld", v, v2);
                    }
                }
                gsim::Oracle o;
                S->in_read[gsim::self()] = 0;
                break;
            }
            case OP_LOAD: {
                {
                    gsim::Oracle o;
                    S->in_read[gsim::self()] = 1;
                }
                Cell c = cdg.load();
                (void)c;
                gsim::Oracle o;
                S->in_read[gsim::self()] = 0;
                break;
            }
            default: break;
        }
    }
    using M = typename DG::shared_handle::lock_type::mutex_type;
    static constexpr bool timed_plain = std::is_same<M, std::timed_mutex>::value;
    static constexpr bool timed = timed_plain || std::is_same<M, std::shared_timed_mutex>::value;

    struct Body {
        WL* w;
        void operator()(int t)
        {
            int n = gsim::prog_len(t);
            for (int i = 0; i < n; i++) {
                gsim::Op op = gsim::prog_op(t, i);
                if (op.c & 1) wl::run_in_unwind([&] { w->run_op(op, t, i); });
                else w->run_op(op, t, i);
            }
        }
    };

    void run()
    {
        State st;
        S = &st;
        Cell::W = gsim::knob("W", 1, 3);
        Cell::tracked = nullptr;
        Cell::model = 0;
        if (!gsim::prog_loaded()) {
            int n = 2 + gsim::gen_int(3);
            gsim::prog_reset(n);
            for (int t = 0; t < n; t++) {
                int role = gsim::gen_int(3);  // 0 submitter 1 reader 2 mixed
                int k = 1 + gsim::gen_int(4 + (gsim::thorough() ? 2 : 0));
                for (int i = 0; i < k; i++) {
                    bool submit = role == 0 || (role == 2 && gsim::gen_int(2));
                    if (submit) {
                        static const int pool[] = {OP_DETACH, OP_DETACH, OP_DETACH, OP_ASYNC_RET,
                                                   OP_ASYNC_VOID, OP_ASYNC_THROW, OP_DETACH_LVALUE,
                                                   OP_ASYNC_VOID_THROW, OP_DETACH_THROW,
                                                   OP_DETACH_THROW};
                        bool thr = !strcmp(gsim::param("mode", "std"), "throw");
                        gsim::prog_add(t, {pool[gsim::gen_int(thr ? 10 : 9)], gsim::gen_int(3) == 0 ? 1 : 0, 0,
                                           (!thr && gsim::gen_int(12) == 0) ? 1 : 0});
                    } else {
                        gsim::prog_add(t, {gsim::gen_int(6) == 0 ? OP_LOAD : OP_READ,
                                           gsim::gen_int(4), gsim::gen_int(4), 0});
                    }
                }
            }
            if (gsim::gen_int(4) == 0 && n < 5) {
                // a hand-over pair: a waiting modification appended to some thread, its helper
                // as the only op of an extra thread
                gsim::prog_add(gsim::gen_int(n), {OP_DETACH_WAITS, 0, 0, 0});
                gsim::prog_add(n, {OP_HELPER, 0, 0, 0});
            }
        }
        // validate the hand-over pairs (the minimiser may have removed one half)
        {
            int w[3] = {0, 0, 0}, hlp[3] = {0, 0, 0}, wt[3] = {-1, -1, -1}, ht[3] = {-2, -2, -2};
            for (int t = 0; t < gsim::prog_nthreads(); t++)
                for (int i = 0; i < gsim::prog_len(t); i++) {
                    gsim::Op op = gsim::prog_op(t, i);
                    if (op.code == OP_DETACH_WAITS) w[op.a % 3]++, wt[op.a % 3] = t;
                    if (op.code == OP_HELPER) hlp[op.a % 3]++, ht[op.a % 3] = t;
                }
            for (int k = 0; k < 3; k++)
                if (w[k] != hlp[k] || w[k] > 1 || (w[k] == 1 && wt[k] == ht[k]))
                    gsim::fail("harness", "unbalanced hand-over pair %d", k);
            // a helper must not sit behind another pair's waiting op in a cycle: keep it simple —
            // helpers are the first op of their thread
            for (int t = 0; t < gsim::prog_nthreads(); t++)
                for (int i = 1; i < gsim::prog_len(t); i++)
                    if (gsim::prog_op(t, i).code == OP_HELPER)
                        gsim::fail("harness", "a helper op must be the first op of its thread");
        }
        gsim::enable_fault(gsim::F_SPURIOUS_TRYLOCK, gsim::knob("spurious_try", 0, 2) * 150);
        gsim::enable_fault(gsim::F_TIME_JUMP, gsim::knob("time_jump", 0, 1) * 20);
        gsim::enable_fault(gsim::F_STALE_READ, gsim::knob("stale", 0, 1) * 200);
        gsim::set_rw_pref(gsim::knob("rw_pref", 0, 1));
        switch (gsim::knob("ctor", 0, 2)) {
            case 1: dg = new DG(Cell(0)); break;
            case 2: {
                Cell init(0);
                dg = new DG(init);
                break;
            }
            default: dg = new DG(); break;
        }
        {
            auto h = static_cast<const DG*>(dg)->lock_shared();
            Cell::tracked = &*h;
        }
        Body b{this};
        wl::run_program(b);
        // ---- quiescence: no handle is held, faults off; one lock_shared must
        // apply everything that was accepted
        gsim::faults_off();
        {
            // "the next lock_shared or modify call": every access form must drain
            using namespace std::chrono_literals;
            const DG* cdg = static_cast<const DG*>(dg);
            int form = gsim::knob("drain_form", 0, 6);
            const char* fname = "lock_shared";
            switch (form) {
                case 1: {
                    fname = "try_lock_shared";
                    auto h = cdg->try_lock_shared();
                    if (!h) gsim::fail("try_failed", "try_lock_shared failed on an idle object");
                    break;
                }
                case 2: {
                    fname = "load";
                    Cell c = cdg->load();
                    (void)c;
                    break;
                }
                case 3:
                    fname = "modify_detach";
                    dg->modify_detach([](Cell&) {});
                    break;
                case 4: {
                    fname = "modify_async";
                    auto f = dg->modify_async([](Cell&) { return 1; });
                    if (f.get() != 1) gsim::fail("wrong_result", "modify_async result");
                    break;
                }
                case 5:
                    if constexpr (timed) {
                        fname = "try_lock_shared_for";
                        auto h = cdg->try_lock_shared_for(40us);
                        if (!h) gsim::fail("try_failed", "try_lock_shared_for failed on an idle object");
                    }
                    break;
                case 6:
                    if constexpr (timed) {
                        fname = "try_lock_shared_until";
                        auto h = cdg->try_lock_shared_until(std::chrono::steady_clock::now() + 40us);
                        if (!h) gsim::fail("try_failed", "try_lock_shared_until failed on an idle object");
                    }
                    break;
                default: break;
            }
            if (form != 0 && strcmp(fname, "lock_shared")) {
                gsim::Oracle o;
                for (auto& s : st.subs)
                    if (s.execs == 0)
                        gsim::fail("stranded", "function #%d was accepted (submission returned at "
                                   "%llu) but has not been applied by the next %s call made "
                                   "while no handle was held", s.id, (unsigned long long)s.resp, fname);
                gsim::probe("deferred.drain_by_other_form");
            }
            auto h = cdg->lock_shared();
            long v = h->read();
            gsim::Oracle o;
            long executed = 0;
            for (auto& s : st.subs) {
                if (s.execs == 0)
                    gsim::fail("stranded", "function #%d was accepted (submission returned at "
                               "%llu) but has not been applied by the next lock_shared made "
                               "while no handle was held", s.id, (unsigned long long)s.resp);
                executed += s.execs;
            }
            if (v != executed)
                gsim::fail("lost_update", "value %ld after %ld executed functions", v, executed);
        }
        for (auto& pf : st.futs_ret) {
            if (pf.second.wait_for(std::chrono::seconds(0)) != std::future_status::ready)
                gsim::fail("future_not_ready", "the future of function #%d is not ready after "
                           "quiescence", pf.first);
            bool thrower = false;
            {
                gsim::Oracle o;
                thrower = sub(pf.first).kind == OP_ASYNC_THROW;
            }
            try {
                long r = pf.second.get();
                if (thrower)
                    gsim::fail("future_wrong", "future of throwing function #%d holds a value",
                               pf.first);
                if (r != 10L * pf.first)
                    gsim::fail("future_wrong", "future of function #%d holds %ld", pf.first, r);
            }
            catch (const gsim::injected& e) {
                if (!thrower || e.ordinal != pf.first)
                    gsim::fail("future_wrong", "future of function #%d holds an unexpected "
                               "exception", pf.first);
            }
        }
        for (auto& pf : st.futs_void) {
            if (pf.second.wait_for(std::chrono::seconds(0)) != std::future_status::ready)
                gsim::fail("future_not_ready", "the future of function #%d is not ready after "
                           "quiescence", pf.first);
            bool thrower;
            {
                gsim::Oracle o;
                thrower = sub(pf.first).kind == OP_ASYNC_VOID_THROW;
            }
            try {
                pf.second.get();
                if (thrower)
                    gsim::fail("future_wrong", "future of throwing void function #%d holds no "
                               "exception", pf.first);
            }
            catch (const gsim::injected& e) {
                if (!thrower || e.ordinal != pf.first)
                    gsim::fail("future_wrong", "future of void function #%d holds an unexpected "
                               "exception", pf.first);
            }
        }
        {
            gsim::Oracle o;
            st.futs_ret.clear();
            st.futs_void.clear();
        }
        delete dg;
        Cell::tracked = nullptr;
        S = nullptr;
    }
};

void run()
{
    gsim::check_races(gsim::param_int("races", 0) != 0);
    using namespace gmlc::libguarded;
    switch (gsim::knob("mutex", 0, 3)) {
        case 0: WL<deferred_guarded<Cell, std::shared_timed_mutex>>().run(); break;
        case 1: WL<deferred_guarded<Cell, std::shared_mutex>>().run(); break;
        case 2: WL<deferred_guarded<Cell, std::timed_mutex>>().run(); break;
        default: WL<deferred_guarded<Cell, std::mutex>>().run(); break;
    }
}
}  // namespace

GSIM_WORKLOAD(wl_deferred, run, OPN)
