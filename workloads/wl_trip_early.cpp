// wl_trip_early — wl_trip with a user object that owns a default TripWireTrigger and is
// constructed during static initialisation, above DECLARE_TRIPLINE() (C19: the declared
// line must work no matter when it is first used).  Static mode only, fork-each.
#define WL_TRIP_EARLY 1
#include "wl_trip.cpp"
