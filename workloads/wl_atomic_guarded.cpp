// wl_atomic_guarded — atomic_guarded<Cell, M> for M in {mutex, timed_mutex, shared_mutex, shared_timed_mutex}
#include "guard_harness.h"

#include <gmlc/libguarded/atomic_guarded.hpp>

namespace gh {
template<class M>
struct Traits<gmlc::libguarded::atomic_guarded<Cell, M>> {
    using W = gmlc::libguarded::atomic_guarded<Cell, M>;
    using mutex_type = M;
    static constexpr const char* name = "atomic_guarded";
    static constexpr bool is_opt = false;
    static constexpr bool has_convert = true;
    static constexpr bool strict_try = true;
    static W* make(bool enabled)
    {
        (void)enabled;
        // built from nothing, from an rvalue or from an lvalue of the payload
        switch (gsim::knob("ctor", 0, 2)) {
            case 1: return new W(Cell(0));
            case 2: {
                Cell init(0);
                return new W(init);
            }
            default: return new W();
        }
    }
};
}  // namespace gh

static void run()
{
    gsim::check_races(gsim::param_int("races", 0) != 0);
    gh::run_all_mutexes<gmlc::libguarded::atomic_guarded>();
}
GSIM_WORKLOAD(wl_atomic_guarded, run, gh::OPN)
