// Generic harness for the mutex-based wrappers (guarded, guarded_opt,
// shared_guarded, shared_guarded_opt, ordered_guarded, deferred_guarded,
// atomic_guarded) x {mutex, timed_mutex, shared_mutex, shared_timed_mutex}.
// Serves C01 (exclusion), C02 (reader/writer), C08 (handle <=> lock),
// C15 (register linearizability), C20 (throwing copies / functors), C07.
#pragma once
#include "common.h"
#include "lin.h"

#include <chrono>
#include <future>
#include <mutex>
#include <shared_mutex>
#include <string>
#include <type_traits>
#include <utility>
#include <vector>

namespace gh {
using wl::Cell;

enum {
    OP_LOCK = 0,
    OP_TRY_LOCK,
    OP_TRY_LOCK_FOR,
    OP_TRY_LOCK_UNTIL,
    OP_LOCK_SHARED,
    OP_TRY_LOCK_SHARED,
    OP_TRY_LOCK_SHARED_FOR,
    OP_TRY_LOCK_SHARED_UNTIL,
    OP_CONST_LOCK,
    OP_LOAD,
    OP_STORE,
    OP_ASSIGN,
    OP_CONVERT,
    OP_MODIFY,
    OP_MODIFY_RET,
    OP_READ,
    OP_READ_RET,
    OP_MODIFY_DETACH,
    OP_MODIFY_ASYNC,
    OP_EXCHANGE,
    OP_CAS,
    OP_RDV_SHARED,
    OP_NOPS
};
static const char* const OPN[] = {
    "lock", "try_lock", "try_lock_for", "try_lock_until", "lock_shared", "try_lock_shared",
    "try_lock_shared_for", "try_lock_shared_until", "const_lock", "load", "store", "assign",
    "convert", "modify", "modify_ret", "read", "read_ret", "modify_detach", "modify_async",
    "exchange", "cas", "rdv_shared"};

// ------------------------------------------------------------- detection
#define GH_DETECT(NAME, EXPR)                                                  \
    template<class W, class = void>                                            \
    struct has_##NAME: std::false_type {};                                     \
    template<class W>                                                          \
    struct has_##NAME<W, std::void_t<decltype(EXPR)>>: std::true_type {};

GH_DETECT(lock, std::declval<W&>().lock())
GH_DETECT(try_lock, std::declval<W&>().try_lock())
GH_DETECT(lock_shared, std::declval<const W&>().lock_shared())
GH_DETECT(try_lock_shared, std::declval<const W&>().try_lock_shared())
GH_DETECT(const_lock, std::declval<const W&>().lock())
GH_DETECT(load, std::declval<W&>().load())
GH_DETECT(store, std::declval<W&>().store(std::declval<const Cell&>()))
GH_DETECT(exchange, std::declval<W&>().exchange(std::declval<Cell>()))
GH_DETECT(modify_detach, std::declval<W&>().modify_detach(std::declval<void (*)(Cell&)>()))
GH_DETECT(read_fn, std::declval<const W&>().read(std::declval<void (*)(const Cell&)>()))
GH_DETECT(modify_fn, std::declval<W&>().modify(std::declval<void (*)(Cell&)>()))

template<class M, class = void>
struct m_timed: std::false_type {};
template<class M>
struct m_timed<M, std::void_t<decltype(std::declval<M&>().try_lock_for(
                      std::chrono::milliseconds(1)))>>: std::true_type {};
template<class M, class = void>
struct m_shared: std::false_type {};
template<class M>
struct m_shared<M, std::void_t<decltype(std::declval<M&>().lock_shared())>>: std::true_type {};
template<class M, class = void>
struct m_shared_timed: std::false_type {};
template<class M>
struct m_shared_timed<M, std::void_t<decltype(std::declval<M&>().try_lock_shared_for(
                             std::chrono::milliseconds(1)))>>: std::true_type {};

// per-wrapper traits supplied by the workload TU
//   static constexpr const char* name;
//   using mutex_type;
//   static constexpr bool is_opt;        (constructed with an enable flag)
//   static constexpr bool has_convert;   (operator T compiles)
//   static constexpr bool strict_try;    (try forms take no internal locks)
//   static W* make(bool enabled);
template<class W>
struct Traits;

// ------------------------------------------------------------ run state
struct HEvent: lin::Event {};
struct State {
    bool enabled = true;  // locking enabled (opt wrappers)
    int oracle_excl = 0, oracle_rw = 0, oracle_handle = 0, oracle_reg = 0, oracle_throw = 0;
    int inflight = 0;  // threads inside an operation on the wrapper (quiescence, C15/C06)
    uint64_t op_epoch = 0;  // operations begun so far
    std::vector<lin::Event> hist;
    long next_val = 1;
    int sections = 0;  // exclusive sections executed
    int throws_seen = 0;
    const void* main_mutex = nullptr;  // the lock that protects the wrapped object
};
inline State* G;
template<class W>
inline W* G_aux = nullptr;  ///< second wrapper of the same type (handle-overwrite life cycle)

inline std::chrono::microseconds dur_of(int c)
{
    switch (c % 5) {
        case 0: return std::chrono::microseconds(2);
        case 1: return std::chrono::microseconds(40);
        case 2: return std::chrono::microseconds(20000);
        case 3: return std::chrono::microseconds(0);  // "do not wait": valid, means try once
        default: return std::chrono::microseconds(-5);  // e.g. the remaining time of an expired budget
    }
}

// register model for C15
struct RegModel {
    using St = long;
    using State = long;
    long init = 0;
    State initial() const { return init; }
    std::string key(const State& s) const { return std::to_string(s); }
    bool apply(State& s, const lin::Event& e) const
    {
        switch (e.op) {
            case OP_LOAD:
            case OP_CONVERT: return e.r == s;
            case OP_STORE:
            case OP_ASSIGN:
            case OP_MODIFY_DETACH: s = e.a; return true;
            case OP_EXCHANGE:
                if (e.r != s) return false;
                s = e.a;
                return true;
            case OP_CAS:
                // a = expected, b = desired, r = success, r2 = expected afterwards
                if (s == e.a) {
                    if (!e.r) return false;
                    s = e.b;
                    return true;
                }
                return !e.r && e.r2 == s;
            default: return true;
        }
    }
};

struct HeldSnap {
    int ex, sh;
    uint64_t blocks;
};
inline HeldSnap snap()
{
    return HeldSnap{gsim::held_exclusive(), gsim::held_shared(), gsim::blocks_count()};
}

/// C08 oracle at the return of an acquisition.
///  shared_mode: the handle is a shared handle; uses_shared_lock: the mutex is
///  shared-capable so the pthread layer sees a read lock
inline void check_acquired(const HeldSnap& before, bool nonnull, bool shared_mode,
                           bool uses_shared_lock, const char* what)
{
    if (!G->oracle_handle) return;
    gsim::Oracle o;
    int dex = gsim::held_exclusive() - before.ex;
    int dsh = gsim::held_shared() - before.sh;
    if (!G->enabled) {
        if (!nonnull)
            gsim::fail("disabled_null", "%s with locking disabled returned a null handle", what);
        if (dex || dsh)
            gsim::fail("disabled_locks", "%s with locking disabled changed the held locks "
                       "(exclusive %+d, shared %+d)", what, dex, dsh);
        if (gsim::blocks_count() != before.blocks)
            gsim::fail("disabled_waits", "%s with locking disabled waited", what);
        return;
    }
    int want_ex = (nonnull && !(shared_mode && uses_shared_lock)) ? 1 : 0;
    int want_sh = (nonnull && shared_mode && uses_shared_lock) ? 1 : 0;
    if (nonnull && (dex != want_ex || dsh != want_sh))
        gsim::fail("handle_without_lock", "%s returned a non-null handle but the calling thread's "
                   "held locks changed by exclusive %+d / shared %+d (expected %+d / %+d)",
                   what, dex, dsh, want_ex, want_sh);
    if (!nonnull && (dex || dsh))
        gsim::fail("lock_without_handle", "%s returned a null handle but the calling thread now "
                   "holds exclusive %+d / shared %+d more locks", what, dex, dsh);
}
inline void check_released(const HeldSnap& before, const char* what);

/// unlock() on a null handle (failed try / timed acquisition) must be harmless:
/// in particular it must not release the lock somebody else holds (the simulated
/// mutex reports an unlock by a non-owner as `bad_unlock`)
template<class H>
void null_handle_unlock(H& h, const HeldSnap& before, gsim::Op op)
{
    if ((op.b % 5) != 1 && (op.b % 5) != 3) return;
    h.unlock();
    if (h) gsim::fail("unlock_not_null", "a null handle tests true after unlock()");
    check_released(before, "unlock() of a null handle");
    gsim::probe("null_handle.unlock");
}

inline void check_released(const HeldSnap& before, const char* what)
{
    if (!G->oracle_handle) return;
    gsim::Oracle o;
    if (gsim::held_exclusive() != before.ex || gsim::held_shared() != before.sh)
        gsim::fail("not_released", "after %s the calling thread holds exclusive %d / shared %d "
                   "locks, expected %d / %d", what, gsim::held_exclusive(), gsim::held_shared(),
                   before.ex, before.sh);
}

struct TryGuard {
    // inside a try / timed acquisition an *untimed* wait is a violation
    explicit TryGuard(bool strict)
    {
        gsim::timed_block_reset();
        if (!(G->oracle_handle && G->enabled)) return;
        if (strict) gsim::forbid_blocking(true, "try_blocked");
        // wrappers whose try forms take short internal locks: only an untimed
        // wait on the wrapper's own lock is forbidden
        else gsim::forbid_blocking_on(G->main_mutex, "try_blocked");
    }
    ~TryGuard()
    {
        gsim::forbid_blocking(false, nullptr);
        gsim::forbid_blocking_on(nullptr, nullptr);
    }
};
/// `t_entry`: for the _until forms the requested time point itself (ns on the
/// simulated clock); unused for the _for forms
inline void check_timed(int64_t t_entry, std::chrono::microseconds d, bool until, const char* what)
{
    if (!G->oracle_handle) return;
    gsim::Oracle o;
    int64_t req = (int64_t)d.count() * 1000;
    if (until) {
        int64_t dl = gsim::timed_block_latest_deadline();
        if (dl >= 0 && dl > t_entry)
            gsim::fail("waits_too_long", "%s waited with a deadline %lld ns after the requested "
                       "time point", what, (long long)(dl - t_entry));
    } else {
        int64_t mx = gsim::timed_block_max_ns();  // -1: no timed wait was entered at all
        if (mx >= 0 && mx > (req > 0 ? req : 0))
            gsim::fail("waits_too_long", "%s for %lld ns entered a wait of %lld ns", what,
                       (long long)req, (long long)mx);
    }
}

// -------------------------------------------------------- section bodies
inline void excl_section(Cell& c, int hold)
{
    if (!G->enabled) {
        // locking disabled: the caller promised not to share the object, so the
        // harness does not touch the payload from several threads
        for (int i = 0; i <= hold; i++) gsim::yield();
        return;
    }
    c.rmw_add(1, hold);
    gsim::Oracle o;
    G->sections++;
}
inline void shared_section(const Cell& c, int hold)
{
    if (!G->enabled) {
        for (int i = 0; i <= hold; i++) gsim::yield();
        return;
    }
    long v = c.read();
    for (int i = 0; i < hold; i++) gsim::yield();
    long v2 = c.read();
    if (v2 != v)
        gsim::fail("unstable", "value under a shared access changed from %ld to %ld", v, v2);
}

/// the target of a move of a usable handle is a usable handle to the same object (with
/// locking enabled and with locking disabled)
template<class H>
void moved_handle_check(const H& h, const void* obj, const char* how)
{
    if (!h)
        gsim::fail("moved_handle_null", "the target of a %s from a non-null handle tests false", how);
    if ((const void*)&*h != obj)
        gsim::fail("moved_handle_null", "the target of a %s refers to another object", how);
}

/// life cycle of a non-null handle H obtained with `before` held-set.
/// `aux` returns an exclusive handle of a second wrapper of the same type
/// (always acquired after the wrapper under test, so no lock-order cycle).
template<class H, class Aux>
void excl_lifecycle(H& h, const HeldSnap& before, gsim::Op op, Aux&& aux)
{
    int life = op.b % 5;
    if (life == 4) {
        // a holding handle is overwritten by move-assignment from another handle:
        // the lock it held must be released at that moment (not when the source
        // of the assignment dies)
        excl_section(*h, op.a);
        H hb = aux();
        h = std::move(hb);
        if (G->oracle_handle || G->oracle_excl) {
            gsim::Oracle o;
            int want = before.ex + (G->enabled ? 1 : 0);
            if (gsim::held_exclusive() != want)
                gsim::fail("overwritten_handle_keeps_lock", "after move-assigning another handle "
                           "over a handle that held the lock the thread holds %d exclusive locks, "
                           "expected %d (the overwritten handle's lock was not released)",
                           gsim::held_exclusive(), want);
        }
        for (int y = 0; y < 2; y++) gsim::yield();
        h.unlock();
        check_released(before, "unlock() of a handle that was overwritten by move-assignment");
    } else if (life == 2) {
        const void* obj = &*h;
        H h2(std::move(h));
        moved_handle_check(h2, obj, "move construction");
        excl_section(*h2, op.a);
        // h2 destroyed first, then (moved-from) h
    } else if (life == 3) {
        excl_section(*h, op.a);
        const void* obj = &*h;
        H h2(std::move(h));
        moved_handle_check(h2, obj, "move construction");
        h = std::move(h2);
        moved_handle_check(h, obj, "move assignment");
        if (G->oracle_handle) {
            gsim::Oracle o;
            if (gsim::held_exclusive() != before.ex + (G->enabled ? 1 : 0))
                gsim::fail("not_released", "moving a handle changed the held locks");
        }
        h.unlock();
        if (G->oracle_handle && h)
            gsim::fail("unlock_not_null", "handle still tests true after unlock()");
        check_released(before, "unlock() of a move-assigned handle");
    } else if (life == 1) {
        excl_section(*h, op.a);
        h.unlock();
        if (G->oracle_handle && h)
            gsim::fail("unlock_not_null", "handle still tests true after unlock()");
        check_released(before, "unlock()");
        h.unlock();  // second unlock() is harmless
        check_released(before, "a second unlock()");
    } else {
        excl_section(*h, op.a);
    }
}
template<class H, class Aux>
void shared_lifecycle(H& h, const HeldSnap& before, gsim::Op op, Aux&& aux)
{
    int life = op.b % 5;
    if (life == 4) {
        shared_section(*h, op.a);
        H hb = aux();
        h = std::move(hb);
        if (G->oracle_handle || G->oracle_excl) {
            gsim::Oracle o;
            int tot = gsim::held_exclusive() + gsim::held_shared();
            int want = before.ex + before.sh + (G->enabled ? 1 : 0);
            if (tot != want)
                gsim::fail("overwritten_handle_keeps_lock", "after move-assigning another shared "
                           "handle over a handle that held the lock the thread holds %d locks, "
                           "expected %d", tot, want);
        }
        gsim::yield();
        h.unlock();
        check_released(before, "unlock() of a shared handle overwritten by move-assignment");
    } else if (life == 2) {
        const void* obj = &*h;
        H h2(std::move(h));
        moved_handle_check(h2, obj, "move construction");
        shared_section(*h2, op.a);
    } else if (life == 3) {
        shared_section(*h, op.a);
        const void* obj = &*h;
        H h2(std::move(h));
        moved_handle_check(h2, obj, "move construction");
        h = std::move(h2);
        moved_handle_check(h, obj, "move assignment");
        h.unlock();
        if (G->oracle_handle && h)
            gsim::fail("unlock_not_null", "shared handle still tests true after unlock()");
        check_released(before, "unlock() of a move-assigned shared handle");
    } else if (life == 1) {
        shared_section(*h, op.a);
        h.unlock();
        if (G->oracle_handle && h)
            gsim::fail("unlock_not_null", "shared handle still tests true after unlock()");
        check_released(before, "unlock() of a shared handle");
    } else {
        shared_section(*h, op.a);
    }
}

struct IncFn {
    int hold;
    bool may_throw;
    void operator()(Cell& c) const
    {
        if (may_throw && gsim::fault_fires(gsim::F_THROW)) throw gsim::injected{20, 0};
        excl_section(c, hold);
    }
};
struct IncRetFn {
    int hold;
    bool may_throw;
    long operator()(Cell& c) const
    {
        if (may_throw && gsim::fault_fires(gsim::F_THROW)) throw gsim::injected{21, 0};
        excl_section(c, hold);
        return 7;
    }
};
struct ReadFn {
    int hold;
    bool may_throw;
    void operator()(const Cell& c) const
    {
        if (may_throw && gsim::fault_fires(gsim::F_THROW)) throw gsim::injected{22, 0};
        shared_section(c, hold);
    }
};
struct ReadRetFn {
    int hold;
    bool may_throw;
    long operator()(const Cell& c) const
    {
        if (may_throw && gsim::fault_fires(gsim::F_THROW)) throw gsim::injected{23, 0};
        shared_section(c, hold);
        return 9;
    }
};
struct SetFn {
    long v;
    int evidx;
    void operator()(Cell& c) const
    {
        c.write(v);
        gsim::Oracle o;
        if (evidx >= 0 && G->hist[evidx].resp != lin::PENDING) {
            uint64_t s = gsim::seq();
            if (s > G->hist[evidx].resp) G->hist[evidx].resp = s;
        }
        if (evidx >= 0) G->hist[evidx].optional = false;
    }
};

inline int hist_begin(int op, long a, long b)
{
    gsim::Oracle o;
    lin::Event e;
    e.tid = gsim::self();
    e.op = op;
    e.a = a;
    e.b = b;
    e.inv = gsim::seq();
    G->hist.push_back(e);
    return (int)G->hist.size() - 1;
}
inline void hist_end(int idx, long r, long r2 = 0)
{
    gsim::Oracle o;
    lin::Event& e = G->hist[idx];
    e.r = r;
    e.r2 = r2;
    uint64_t s = gsim::seq();
    if (e.resp == lin::PENDING || s > e.resp) e.resp = s;
}
inline void hist_drop(int idx)
{
    gsim::Oracle o;
    G->hist[idx].optional = true;  // the call threw: may or may not have taken effect? no: had no effect
    G->hist[idx].op = -1;
}

/// call `f`; with the throw oracle on, an injected exception must arrive here
/// and leave no lock behind.  Returns false if it threw.
template<class F>
bool guarded_call(const char* what, F&& f)
{
    HeldSnap before = snap();
    try {
        f();
        return true;
    }
    catch (const gsim::injected&) {
        gsim::Oracle o;
        G->throws_seen++;
        if (gsim::held_exclusive() != before.ex || gsim::held_shared() != before.sh)
            gsim::fail("lock_leaked_on_throw", "%s propagated an exception but left exclusive %d / "
                       "shared %d locks held (before: %d / %d)", what, gsim::held_exclusive(),
                       gsim::held_shared(), before.ex, before.sh);
        gsim::probe("throw.propagated");
        return false;
    }
}

// ------------------------------------------------------------- executor
template<class W>
struct Exec {
    using T = Traits<W>;
    using M = typename T::mutex_type;
    static constexpr bool timed = m_timed<M>::value;
    static constexpr bool sharedm = m_shared<M>::value;
    static constexpr bool shared_timed = m_shared_timed<M>::value;

    static bool supported(int code)
    {
        switch (code) {
            case OP_LOCK: return has_lock<W>::value;
            case OP_TRY_LOCK: return has_try_lock<W>::value;
            case OP_TRY_LOCK_FOR:
            case OP_TRY_LOCK_UNTIL: return has_try_lock<W>::value && timed;
            case OP_LOCK_SHARED: return has_lock_shared<W>::value;
            case OP_TRY_LOCK_SHARED: return has_try_lock_shared<W>::value;
            case OP_TRY_LOCK_SHARED_FOR:
            case OP_TRY_LOCK_SHARED_UNTIL:
                return has_try_lock_shared<W>::value && (sharedm ? shared_timed : timed);
            case OP_CONST_LOCK: return has_const_lock<W>::value && has_lock_shared<W>::value;
            case OP_LOAD: return has_load<W>::value;
            case OP_STORE:
            case OP_ASSIGN: return has_store<W>::value;
            case OP_CONVERT: return T::has_convert;
            case OP_MODIFY:
            case OP_MODIFY_RET: return has_modify_fn<W>::value;
            case OP_READ:
            case OP_READ_RET: return has_read_fn<W>::value;
            case OP_MODIFY_DETACH:
            case OP_MODIFY_ASYNC: return has_modify_detach<W>::value;
            case OP_EXCHANGE:
            case OP_CAS: return has_exchange<W>::value;
            case OP_RDV_SHARED: return has_lock_shared<W>::value && sharedm;
            default: return false;
        }
    }

    static void run_op(W& w, gsim::Op op, int t, int i)
    {
        const W& cw = w;
        (void)cw;
        bool thr = G->oracle_throw != 0;
        switch (op.code) {
            case OP_LOCK:
                if constexpr (has_lock<W>::value) {
                    HeldSnap b = snap();
                    {
                        auto h = w.lock();
                        check_acquired(b, (bool)h, false, false, "lock()");
                        if (h) excl_lifecycle(h, b, op, [&] { return G_aux<W>->lock(); });
                    }
                    check_released(b, "destruction of an exclusive handle");
                }
                break;
            case OP_TRY_LOCK:
                if constexpr (has_try_lock<W>::value) {
                    HeldSnap b = snap();
                    {
                        auto h = [&] {
                            TryGuard g(T::strict_try);
                            return w.try_lock();
                        }();
                        check_acquired(b, (bool)h, false, false, "try_lock()");
                        if (h) excl_lifecycle(h, b, op, [&] { return G_aux<W>->lock(); });
                        else {
                            gsim::probe("try_lock.null");
                            null_handle_unlock(h, b, op);
                            if constexpr (has_lock<W>::value) {
                                if (op.b % 5 == 2) {
                                    // the natural fall-back while the null handle is still in
                                    // scope: a null handle holds nothing, so this cannot deadlock
                                    auto h2 = w.lock();
                                    excl_section(*h2, 0);
                                    gsim::probe("null_handle.fallback_lock");
                                }
                            }
                        }
                    }
                    check_released(b, "destruction of an exclusive handle");
                }
                break;
            case OP_TRY_LOCK_FOR:
                if constexpr (has_try_lock<W>::value && timed) {
                    HeldSnap b = snap();
                    auto d = dur_of(op.c);
                    int64_t t0 = gsim::now_ns();
                    {
                        auto h = [&] {
                            TryGuard g(T::strict_try);
                            return w.try_lock_for(d);
                        }();
                        check_timed(t0, d, false, "try_lock_for");
                        check_acquired(b, (bool)h, false, false, "try_lock_for()");
                        if (h) excl_lifecycle(h, b, op, [&] { return G_aux<W>->lock(); });
                        else {
                            gsim::probe("try_lock_for.null");
                            null_handle_unlock(h, b, op);
                            if constexpr (has_lock<W>::value) {
                                if (op.b % 5 == 2) {
                                    // the natural fall-back while the null handle is still in
                                    // scope: a null handle holds nothing, so this cannot deadlock
                                    auto h2 = w.lock();
                                    excl_section(*h2, 0);
                                    gsim::probe("null_handle.fallback_lock");
                                }
                            }
                        }
                    }
                    check_released(b, "destruction of an exclusive handle");
                }
                break;
            case OP_TRY_LOCK_UNTIL:
                if constexpr (has_try_lock<W>::value && timed) {
                    HeldSnap b = snap();
                    auto d = dur_of(op.c);
                    auto tp = std::chrono::steady_clock::now() + d;
                    int64_t t0 = std::chrono::duration_cast<std::chrono::nanoseconds>(
                                     tp.time_since_epoch()).count();
                    {
                        auto h = [&] {
                            TryGuard g(T::strict_try);
                            return w.try_lock_until(tp);
                        }();
                        check_timed(t0, d, true, "try_lock_until");
                        check_acquired(b, (bool)h, false, false, "try_lock_until()");
                        if (h) excl_lifecycle(h, b, op, [&] { return G_aux<W>->lock(); });
                        else {
                            gsim::probe("try_lock_until.null");
                            null_handle_unlock(h, b, op);
                            if constexpr (has_lock<W>::value) {
                                if (op.b % 5 == 2) {
                                    // the natural fall-back while the null handle is still in
                                    // scope: a null handle holds nothing, so this cannot deadlock
                                    auto h2 = w.lock();
                                    excl_section(*h2, 0);
                                    gsim::probe("null_handle.fallback_lock");
                                }
                            }
                        }
                    }
                    check_released(b, "destruction of an exclusive handle");
                }
                break;
            case OP_LOCK_SHARED:
                if constexpr (has_lock_shared<W>::value) {
                    HeldSnap b = snap();
                    {
                        auto h = cw.lock_shared();
                        check_acquired(b, (bool)h, true, sharedm, "lock_shared()");
                        if (h) shared_lifecycle(h, b, op, [&] { return static_cast<const W*>(G_aux<W>)->lock_shared(); });
                    }
                    check_released(b, "destruction of a shared handle");
                }
                break;
            case OP_CONST_LOCK:
                if constexpr (has_const_lock<W>::value && has_lock_shared<W>::value) {
                    HeldSnap b = snap();
                    {
                        auto h = cw.lock();
                        check_acquired(b, (bool)h, true, sharedm, "const lock()");
                        if (h) shared_lifecycle(h, b, op, [&] { return static_cast<const W*>(G_aux<W>)->lock_shared(); });
                    }
                    check_released(b, "destruction of a shared handle");
                }
                break;
            case OP_TRY_LOCK_SHARED:
                if constexpr (has_try_lock_shared<W>::value) {
                    HeldSnap b = snap();
                    {
                        auto h = [&] {
                            TryGuard g(T::strict_try);
                            return cw.try_lock_shared();
                        }();
                        check_acquired(b, (bool)h, true, sharedm, "try_lock_shared()");
                        if (h) shared_lifecycle(h, b, op, [&] { return static_cast<const W*>(G_aux<W>)->lock_shared(); });
                        else {
                            gsim::probe("try_lock_shared.null");
                            null_handle_unlock(h, b, op);
                        }
                    }
                    check_released(b, "destruction of a shared handle");
                }
                break;
            case OP_TRY_LOCK_SHARED_FOR:
                if constexpr (has_try_lock_shared<W>::value && (sharedm ? shared_timed : timed)) {
                    HeldSnap b = snap();
                    auto d = dur_of(op.c);
                    int64_t t0 = gsim::now_ns();
                    {
                        auto h = [&] {
                            TryGuard g(T::strict_try);
                            return cw.try_lock_shared_for(d);
                        }();
                        check_timed(t0, d, false, "try_lock_shared_for");
                        check_acquired(b, (bool)h, true, sharedm, "try_lock_shared_for()");
                        if (h) shared_lifecycle(h, b, op, [&] { return static_cast<const W*>(G_aux<W>)->lock_shared(); });
                        else {
                            gsim::probe("try_lock_shared_for.null");
                            null_handle_unlock(h, b, op);
                        }
                    }
                    check_released(b, "destruction of a shared handle");
                }
                break;
            case OP_TRY_LOCK_SHARED_UNTIL:
                if constexpr (has_try_lock_shared<W>::value && (sharedm ? shared_timed : timed)) {
                    HeldSnap b = snap();
                    auto d = dur_of(op.c);
                    auto tp = std::chrono::steady_clock::now() + d;
                    int64_t t0 = std::chrono::duration_cast<std::chrono::nanoseconds>(
                                     tp.time_since_epoch()).count();
                    {
                        auto h = [&] {
                            TryGuard g(T::strict_try);
                            return cw.try_lock_shared_until(tp);
                        }();
                        check_timed(t0, d, true, "try_lock_shared_until");
                        check_acquired(b, (bool)h, true, sharedm, "try_lock_shared_until()");
                        if (h) shared_lifecycle(h, b, op, [&] { return static_cast<const W*>(G_aux<W>)->lock_shared(); });
                        else {
                            gsim::probe("try_lock_shared_until.null");
                            null_handle_unlock(h, b, op);
                        }
                    }
                    check_released(b, "destruction of a shared handle");
                }
                break;
            case OP_LOAD:
                if constexpr (has_load<W>::value) {
                    // deferred_guarded: a load that runs while nobody else is inside any
                    // operation on the wrapper (and meets no injected try-lock failure) is an
                    // access "made while no handle is held": every modification whose
                    // modify_detach call had returned before it began must have been applied
                    // by the time it returns (C06 drain clause seen through the register, C15)
                    std::vector<int> due;
                    bool quiet = false;
                    uint64_t ep = 0, ff = 0;
                    if constexpr (has_modify_detach<W>::value) {
                        gsim::Oracle o;
                        if (G->oracle_reg) {
                            quiet = G->inflight == 1;
                            ep = G->op_epoch;
                            ff = gsim::faults_fired(gsim::F_SPURIOUS_TRYLOCK);
                            if (quiet)
                                for (size_t i = 0; i < G->hist.size(); i++)
                                    if (G->hist[i].op == OP_MODIFY_DETACH && G->hist[i].optional &&
                                        G->hist[i].resp != lin::PENDING)
                                        due.push_back((int)i);
                        }
                    }
                    int e = hist_begin(OP_LOAD, 0, 0);
                    long v = 0;
                    if (guarded_call("load()", [&] { Cell c = w.load(); v = c.w[0]; }))
                        hist_end(e, v);
                    else
                        hist_drop(e);
                    if (quiet) {
                        gsim::Oracle o;
                        if (G->op_epoch == ep && ff == gsim::faults_fired(gsim::F_SPURIOUS_TRYLOCK)) {
                            gsim::probe("reg.quiescent_load");
                            for (int i : due)
                                if (G->hist[i].optional)
                                    gsim::fail("stale_load", "load() ran while no other thread was "
                                               "inside any operation on the deferred_guarded and "
                                               "returned %ld without the modification (value %ld) "
                                               "whose modify_detach call had already returned",
                                               v, G->hist[i].a);
                            if (!due.empty()) gsim::probe("reg.quiescent_load_after_deferred_write");
                        }
                    }
                }
                break;
            case OP_STORE:
                if constexpr (has_store<W>::value) {
                    long v = op.c;
                    Cell src(v);
                    int e = hist_begin(OP_STORE, v, 0);
                    if (guarded_call("store()", [&] { w.store(src); }))
                        hist_end(e, 0);
                    else
                        hist_drop(e);
                }
                break;
            case OP_ASSIGN:
                if constexpr (has_store<W>::value) {
                    long v = op.c;
                    Cell src(v);
                    int e = hist_begin(OP_ASSIGN, v, 0);
                    if (guarded_call("operator=", [&] { w = src; }))
                        hist_end(e, 0);
                    else
                        hist_drop(e);
                }
                break;
            case OP_CONVERT:
                if constexpr (T::has_convert) {
                    int e = hist_begin(OP_CONVERT, 0, 0);
                    long v = 0;
                    if (guarded_call("operator T", [&] { Cell c = static_cast<Cell>(w); v = c.w[0]; }))
                        hist_end(e, v);
                    else
                        hist_drop(e);
                }
                break;
            case OP_MODIFY:
                if constexpr (has_modify_fn<W>::value)
                    guarded_call("modify()", [&] { w.modify(IncFn{op.a, thr}); });
                break;
            case OP_MODIFY_RET:
                if constexpr (has_modify_fn<W>::value)
                    guarded_call("modify()", [&] {
                        long r = w.modify(IncRetFn{op.a, thr});
                        if (r != 7) gsim::fail("wrong_result", "modify returned %ld", r);
                    });
                break;
            case OP_READ:
                if constexpr (has_read_fn<W>::value)
                    guarded_call("read()", [&] { cw.read(ReadFn{op.a, thr}); });
                break;
            case OP_READ_RET:
                if constexpr (has_read_fn<W>::value)
                    guarded_call("read()", [&] {
                        long r = cw.read(ReadRetFn{op.a, thr});
                        if (r != 9) gsim::fail("wrong_result", "read returned %ld", r);
                    });
                break;
            case OP_MODIFY_DETACH:
                if constexpr (has_modify_detach<W>::value) {
                    if (G->oracle_reg) {
                        long v = op.c;
                        int e = hist_begin(OP_MODIFY_DETACH, v, 0);
                        {
                            gsim::Oracle o;
                            G->hist[e].optional = true;  // until the functor has run
                        }
                        w.modify_detach(SetFn{v, e});
                        hist_end(e, 0);
                    } else {
                        w.modify_detach(IncFn{op.a, false});
                    }
                }
                break;
            case OP_MODIFY_ASYNC:
                if constexpr (has_modify_detach<W>::value) {
                    if (!G->oracle_reg) {
                        auto fut = w.modify_async(IncRetFn{op.a, false});
                        (void)fut;
                    }
                }
                break;
            case OP_EXCHANGE:
                if constexpr (has_exchange<W>::value) {
                    long v = op.c;
                    int e = hist_begin(OP_EXCHANGE, v, 0);
                    long old = 0;
                    if (guarded_call("exchange()", [&] { Cell c = w.exchange(Cell(v)); old = c.w[0]; }))
                        hist_end(e, old);
                    else
                        hist_drop(e);
                }
                break;
            case OP_CAS:
                if constexpr (has_exchange<W>::value) {
                    long expect = op.b, desired = op.c;
                    Cell ex(expect);
                    Cell de(desired);
                    int e = hist_begin(OP_CAS, expect, desired);
                    bool ok = false;
                    if (guarded_call("compare_exchange()", [&] { ok = w.compare_exchange(ex, de); }))
                        hist_end(e, ok ? 1 : 0, ex.w[0]);
                    else
                        hist_drop(e);
                }
                break;
            case OP_RDV_SHARED:
                if constexpr (has_lock_shared<W>::value && sharedm) {
                    // C02 reader sharing: no writer exists in this program, so
                    // no shared acquisition may wait or fail
                    using namespace std::chrono_literals;
                    if constexpr (has_load<W>::value) {
                        if (op.b % 7 >= 5) {
                            // load() is a reader too: called while another reader holds its
                            // handle it must neither wait nor fail
                            int holders = 0;
                            for (int u = 0; u < gsim::prog_nthreads(); u++)
                                for (int k = 0; k < gsim::prog_len(u); k++)
                                    if (gsim::prog_op(u, k).code == OP_RDV_SHARED &&
                                        gsim::prog_op(u, k).b % 7 < 5)
                                        holders++;
                            if (holders) gsim::ctr_wait_ge(2, 1);
                            gsim::forbid_blocking(true, "readers_serialised");
                            Cell c = cw.load();
                            gsim::forbid_blocking(false, nullptr);
                            (void)c.read();
                            if (holders) gsim::probe("rdv.load_while_reader_holds");
                            gsim::ctr_add(1, 1);
                            break;
                        }
                    }
                    gsim::forbid_blocking(true, "readers_serialised");
                    int form = (op.b % 7) % 5;
                    if constexpr (!shared_timed) form = form % 3 == 2 ? 0 : form % 3;
                    if constexpr (has_read_fn<W>::value) {
                        if (form == 4) {
                            cw.read([&](const Cell& c) {
                                gsim::forbid_blocking(false, nullptr);
                                (void)c.read();
                                gsim::ctr_add(2, 1);
                                gsim::ctr_add(1, 1);
                                gsim::ctr_wait_ge(1, gsim::prog_nthreads());
                            });
                            break;
                        }
                    }
                    auto h = [&] {
                        if constexpr (has_try_lock_shared<W>::value) {
                            if (form == 1) return cw.try_lock_shared();
                            if constexpr (shared_timed) {
                                if (form == 2) return cw.try_lock_shared_for(5ms);
                                if (form == 3)
                                    return cw.try_lock_shared_until(std::chrono::steady_clock::now() + 5ms);
                            }
                        }
                        return cw.lock_shared();
                    }();
                    gsim::forbid_blocking(false, nullptr);
                    if (!h)
                        gsim::fail("readers_serialised", "a shared acquisition (form %d) failed "
                                   "although only readers exist", form);
                    (void)h->read();
                    gsim::ctr_add(2, 1);
                    gsim::ctr_add(1, 1);
                    gsim::ctr_wait_ge(1, gsim::prog_nthreads());
                }
                break;
            default: break;
        }
        (void)t;
        (void)i;
    }
};

// ------------------------------------------------------------ generators
template<class W>
void generate(const char* mode)
{
    using E = Exec<W>;
    std::vector<int> p;
    auto padd = [&](int code, int weight = 1) {
        if (E::supported(code))
            for (int k = 0; k < weight; k++) p.push_back(code);
    };
    if (!strcmp(mode, "rdv")) {
        int n = 2 + gsim::gen_int(2);
        gsim::prog_reset(n);
        for (int t = 0; t < n; t++) gsim::prog_add(t, {OP_RDV_SHARED, 0, gsim::gen_int(7), 0});
        return;
    }
    if (!strcmp(mode, "reg")) {
        padd(OP_LOAD, 3);
        padd(OP_STORE, 2);
        padd(OP_ASSIGN, 1);
        padd(OP_CONVERT, 1);
        padd(OP_EXCHANGE, 2);
        padd(OP_CAS, 3);
        padd(OP_MODIFY_DETACH, 2);
        if (has_modify_detach<W>::value) padd(OP_LOCK_SHARED, 1);
    } else if (!strcmp(mode, "rw")) {
        padd(OP_LOCK_SHARED, 3);
        padd(OP_TRY_LOCK_SHARED, 2);
        padd(OP_TRY_LOCK_SHARED_FOR, 1);
        padd(OP_TRY_LOCK_SHARED_UNTIL, 1);
        padd(OP_CONST_LOCK, 1);
        padd(OP_READ, 2);
        padd(OP_READ_RET, 1);
        padd(OP_LOAD, 1);
        padd(OP_LOCK, 2);
        padd(OP_TRY_LOCK, 1);
        padd(OP_TRY_LOCK_FOR, 1);
        padd(OP_TRY_LOCK_UNTIL, 1);
        padd(OP_MODIFY, 2);
        padd(OP_MODIFY_RET, 1);
        padd(OP_STORE, 1);
        padd(OP_ASSIGN, 1);
        padd(OP_MODIFY_DETACH, 2);
        padd(OP_MODIFY_ASYNC, 1);
    } else {  // excl / handle / throw: everything the wrapper offers
        for (int c = 0; c < OP_RDV_SHARED; c++) padd(c, 1);
        padd(OP_LOCK, 2);
        padd(OP_TRY_LOCK, 1);
        padd(OP_TRY_LOCK_FOR, 1);
    }
    if (p.empty()) {
        gsim::prog_reset(1);
        return;
    }
    bool reg = !strcmp(mode, "reg");
    int single = reg && gsim::gen_int(6) == 0;
    int n = single ? 1 : 2 + gsim::gen_int(reg ? 2 : 3);
    gsim::prog_reset(n);
    long written[32];
    int nwritten = 0;
    written[nwritten++] = 0;
    for (int t = 0; t < n; t++) {
        int k = single ? 1 + gsim::gen_int(12) : 1 + gsim::gen_int(4 + (gsim::thorough() ? 2 : 0));
        for (int i = 0; i < k; i++) {
            gsim::Op op;
            op.code = p[gsim::gen_int((int)p.size())];
            op.a = gsim::gen_int(4) == 0 ? 1 + gsim::gen_int(3) : 0;  // hold
            if (gsim::gen_int(12) == 0) op.a |= 8;  // run the op during stack unwinding
            op.b = gsim::gen_int(5);  // life cycle / cas expected
            op.c = gsim::gen_int(5);  // duration index
            if (op.code == OP_STORE || op.code == OP_ASSIGN || op.code == OP_EXCHANGE ||
                op.code == OP_CAS || (op.code == OP_MODIFY_DETACH && reg)) {
                op.c = 100 * (t + 1) + i + 1;  // unique value
                if (op.code == OP_CAS) op.b = (int)written[gsim::gen_int(nwritten)];
                if (nwritten < 32) written[nwritten++] = op.c;
            }
            gsim::prog_add(t, op);
        }
    }
}

template<class W>
struct Body {
    W* w;
    void operator()(int t)
    {
        int n = gsim::prog_len(t);
        for (int i = 0; i < n; i++) {
            gsim::Op op = gsim::prog_op(t, i);
            bool unwind = (op.a & 8) != 0 && !G->oracle_throw;
            op.a &= 7;
            {
                gsim::Oracle o;
                G->inflight++;
                G->op_epoch++;
            }
            if (unwind) wl::run_in_unwind([&] { Exec<W>::run_op(*w, op, t, i); });
            else Exec<W>::run_op(*w, op, t, i);
            {
                gsim::Oracle o;
                G->inflight--;
            }
        }
    }
};

template<class W>
void run_wrapper()
{
    using T = Traits<W>;
    const char* mode = gsim::param("mode", "excl");
    State st;
    G = &st;
    st.oracle_excl = 1;  // windows are always on
    st.oracle_handle = !strcmp(mode, "handle");
    st.oracle_reg = !strcmp(mode, "reg");
    st.oracle_throw = !strcmp(mode, "throw");
    bool want_disabled = T::is_opt && gsim::param_int("disabled", 0) != 0;
    st.enabled = !want_disabled;
    Cell::W = gsim::knob("W", 1, 4);
    Cell::throw_on_copy = false;
    Cell::tracked = nullptr;
    Cell::model = 0;
    Cell::writes_applied = 0;
    if (!gsim::prog_loaded()) generate<W>(mode);
    // faults
    int tj = gsim::knob("time_jump", 0, 2), st_ = gsim::knob("spurious_try", 0, 2);
    if (strcmp(mode, "rdv")) {
        gsim::enable_fault(gsim::F_TIME_JUMP, tj * 20);
        gsim::enable_fault(gsim::F_SPURIOUS_TRYLOCK, st_ * 100);
    }
    if (st.oracle_throw) gsim::enable_fault(gsim::F_THROW, 50 + gsim::knob("throw", 0, 2) * 100);
    gsim::set_rw_pref(gsim::knob("rw_pref", 0, 1));
    W* w = T::make(st.enabled);
    G_aux<W> = T::make(st.enabled);
    // find the wrapped object
    if constexpr (has_lock<W>::value) {
        auto h = w->lock();
        Cell::tracked = &*h;
        if (st.enabled) st.main_mutex = gsim::last_lock_obj();
    } else if constexpr (has_lock_shared<W>::value) {
        auto h = static_cast<const W*>(w)->lock_shared();
        Cell::tracked = &*h;
        st.main_mutex = gsim::last_lock_obj();
    }
    Cell::model = 0;
    if (st.oracle_throw) Cell::throw_on_copy = true;
    Body<W> body{w};
    wl::run_program(body);
    Cell::throw_on_copy = false;
    gsim::faults_off();
    // ---- final checks by thread 0
    if constexpr (has_try_lock<W>::value) {
        auto h = w->try_lock();
        if (!h)
            gsim::fail("leaked_lock", "after all threads finished try_lock() still fails");
        if (st.enabled) (void)h->read();
    } else if constexpr (has_lock_shared<W>::value) {
        auto h = static_cast<const W*>(w)->lock_shared();
        (void)h->read();
    } else if constexpr (has_load<W>::value) {
        Cell c = w->load();
        (void)c;
    }
    if (st.oracle_reg) {
        gsim::Oracle o;
        std::vector<lin::Event> evs;
        for (auto& e : st.hist)
            if (e.op >= 0) evs.push_back(e);
        if (evs.size() <= 20) {
            RegModel m;
            lin::Checker<RegModel> chk(m, evs);
            if (!chk.check()) {
                std::string desc;
                for (auto& e : evs) {
                    char buf[160];
                    snprintf(buf, sizeof buf, "[T%d %s(%ld,%ld)->%ld,%ld @%llu..%llu] ", e.tid,
                             OPN[e.op], e.a, e.b, e.r, e.r2, (unsigned long long)e.inv,
                             (unsigned long long)(e.resp == lin::PENDING ? 0 : e.resp));
                    desc += buf;
                }
                gsim::fail("not_linearizable", "no sequential register history explains: %s",
                           desc.c_str());
            }
            gsim::probe("lin.checked");
        } else
            gsim::probe("lin.skipped_long");
    }
    delete w;
    delete G_aux<W>;
    G_aux<W> = nullptr;
    G = nullptr;
    Cell::tracked = nullptr;
}

/// dispatch on the mutex knob
template<template<class, class> class Wrap>
void run_all_mutexes()
{
    switch (gsim::knob("mutex", 0, 3)) {
        case 0: run_wrapper<Wrap<Cell, std::mutex>>(); break;
        case 1: run_wrapper<Wrap<Cell, std::timed_mutex>>(); break;
        case 2: run_wrapper<Wrap<Cell, std::shared_mutex>>(); break;
        default: run_wrapper<Wrap<Cell, std::shared_timed_mutex>>(); break;
    }
}

}  // namespace gh
