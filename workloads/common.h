// shared pieces of the instrumented workloads: payload types, thread runner
#pragma once
#include "../sim/gsim.h"

#include <cstring>
#include <type_traits>

namespace wl {

/// Multi-word payload.  Every write touches all active words with a scheduling
/// point between words, every read reads all of them and reports `torn` if
/// they differ.  Reads / writes open an access window at the window monitor.
struct Cell {
    static constexpr int MAXW = 4;
    long w[MAXW];
    inline static int W = 1;  ///< active words (per-run knob, set by thread 0 before spawning)
    inline static bool throw_on_copy = false;  ///< F_THROW may fire in copy operations
    /// the wrapped object under test (if the workload has exactly one) and the
    /// value its last completed write stored; every granted access must see it
    inline static const Cell* tracked = nullptr;
    inline static long model = 0;
    inline static long writes_applied = 0;
    void check_model(long v, const char* what) const
    {
        if (this != tracked) return;
        gsim::Oracle o;
        if (v != model)
            gsim::fail("lost_update", "%s of the wrapped object saw %ld but the last completed "
                       "write stored %ld", what, v, model);
    }
    void set_model(long v) const
    {
        if (this != tracked) return;
        gsim::Oracle o;
        model = v;
        writes_applied++;
    }

    Cell() { for (int i = 0; i < MAXW; i++) w[i] = 0; }
    explicit Cell(long v) { for (int i = 0; i < MAXW; i++) w[i] = v; }
    Cell(const Cell& o)
    {
        maybe_throw(1);
        long v = o.read();
        for (int i = 0; i < MAXW; i++) w[i] = v;
    }
    /// a move constructor that really moves: the source is left in a recognisable
    /// moved-from state.  (There is deliberately no move assignment: assignment
    /// always copies and gives the strong guarantee.)  Correct library code never
    /// moves *from* the wrapped object; if it does, the poison shows up as a
    /// value nobody wrote.
    static constexpr long MOVED_FROM = -7777;
    Cell(Cell&& o) noexcept
    {
        gsim::win_begin(&o, true);
        long v = o.w[0];
        for (int i = 0; i < MAXW; i++) w[i] = v;
        for (int i = 0; i < MAXW; i++) o.w[i] = MOVED_FROM;
        gsim::win_end(&o, true);
    }
    Cell& operator=(const Cell& o)
    {
        maybe_throw(2);
        long v = o.read();
        write(v);
        return *this;
    }
    static void maybe_throw(int site)
    {
        if (throw_on_copy && gsim::fault_fires(gsim::F_THROW)) throw gsim::injected{site, 0};
    }
    /// windowed read of all words
    long read() const
    {
        gsim::win_begin(this, false);
        long v = w[0];
        bool torn = false;
        for (int i = 1; i < W; i++) {
            gsim::yield();
            if (w[i] != v) torn = true;
        }
        gsim::win_end(this, false);
        if (torn)
            gsim::fail("torn", "read of payload %p saw words %ld %ld %ld %ld", (const void*)this,
                       w[0], w[1], w[2], w[3]);
        if (v == MOVED_FROM)
            gsim::fail("moved_from_value", "a read of payload %p returned the moved-from state: the "
                       "library moved out of the wrapped object and did not restore it",
                       (const void*)this);
        check_model(v, "a read");
        return v;
    }
    /// windowed write of all words
    void write(long v)
    {
        gsim::win_begin(this, true);
        for (int i = 0; i < W; i++) {
            if (i) gsim::yield();
            w[i] = v;
        }
        for (int i = W; i < MAXW; i++) w[i] = v;
        set_model(v);
        gsim::win_end(this, true);
    }
    /// read-modify-write inside one W window: returns the old value
    long rmw_add(long d, int hold = 0)
    {
        gsim::win_begin(this, true);
        long v = w[0];
        for (int i = 1; i < W; i++)
            if (w[i] != v) {
                gsim::win_end(this, true);
                gsim::fail("torn", "rmw on payload %p saw words %ld %ld %ld %ld", (void*)this,
                           w[0], w[1], w[2], w[3]);
            }
        if (v == MOVED_FROM) {
            gsim::win_end(this, true);
            gsim::fail("moved_from_value", "a read-modify-write of payload %p found the moved-from "
                       "state", (void*)this);
        }
        check_model(v, "a read-modify-write");
        for (int h = 0; h < hold; h++) gsim::yield();
        for (int i = 0; i < W; i++) {
            gsim::yield();
            w[i] = v + d;
        }
        for (int i = W; i < MAXW; i++) w[i] = v + d;
        set_model(v + d);
        gsim::win_end(this, true);
        return v;
    }
    bool operator==(const Cell& o) const { return read() == o.read(); }
};

/// run the generated program: program thread t is simulated thread t+1
template<typename Body>
struct Runner {
    struct Arg {
        Body* body;
        int t;
    };
    static void tramp(void* p)
    {
        Arg* a = (Arg*)p;
        (*a->body)(a->t);
    }
    static void run(Body& body)
    {
        int n = gsim::prog_nthreads();
        Arg args[gsim::MAX_THREADS];
        int tids[gsim::MAX_THREADS];
        for (int t = 0; t < n; t++) {
            args[t] = Arg{&body, t};
            tids[t] = gsim::spawn(&tramp, &args[t]);
        }
        for (int t = 0; t < n; t++) gsim::join(tids[t]);
    }
};
template<typename Body>
void run_program(Body&& body)
{
    Runner<std::remove_reference_t<Body>>::run(body);
}

/// run `f` from a destructor while an unrelated exception unwinds the stack
/// (clean-up code using the library): everything must behave as usual
template<class F>
void run_in_unwind(F&& f)
{
    struct Guard {
        F& fn;
        ~Guard()
        {
            try {
                fn();
            }
            catch (...) {
            }
        }
    };
    try {
        Guard g{f};
        throw gsim::injected{99, 0};
    }
    catch (const gsim::injected&) {
        gsim::probe("op_run_during_unwinding");
    }
}

inline bool prop_is(const char* id)
{
    return std::strcmp(gsim::property(), id) == 0;
}

}  // namespace wl
