# gsim build.  Runtime objects are uninstrumented; workload and driver objects
# are compiled with -fsanitize=thread for instrumentation ONLY and linked
# without the TSan runtime (sim/rt_mem.cpp implements the __tsan_* ABI).
CXX      := clang++
REPO     ?= /repo
ROOT     := $(patsubst %/,%,$(dir $(abspath $(lastword $(MAKEFILE_LIST)))))
BUILD    ?= $(ROOT)/build
GUARD    := -DGMLC_CONCURRENCY_VERIF
RTFLAGS  := -std=c++17 -O2 -g -fno-omit-frame-pointer -fPIE -Wall -Wno-unused-function -fno-builtin
INSTR    := -fsanitize=thread -mllvm -tsan-instrument-func-entry-exit=0
WLFLAGS  := -std=c++17 -O1 -g -fno-omit-frame-pointer -fPIE $(INSTR) $(GUARD) -I$(REPO) -I$(ROOT)/sim -Wall -Wno-unused-function $(EXTRA)
LDFLAGS  := -pie -rdynamic -ldl -lpthread

RT_SRCS := rt.cpp rt_sync.cpp rt_heap.cpp rt_mem.cpp
RT_OBJS := $(RT_SRCS:%.cpp=$(BUILD)/rt/%.o)

.PHONY: setup clean
setup: $(RT_OBJS) $(BUILD)/rt/main.o $(BUILD)/rt/merge_hashes

$(BUILD)/rt/merge_hashes: sim/merge_hashes.cpp
	@mkdir -p $(BUILD)/rt
	g++ -O2 -o $@ $<

$(BUILD)/rt/%.o: sim/%.cpp sim/*.h
	@mkdir -p $(BUILD)/rt
	$(CXX) $(RTFLAGS) -c $< -o $@

$(BUILD)/rt/main.o: sim/main.cpp sim/*.h
	@mkdir -p $(BUILD)/rt
	$(CXX) $(WLFLAGS) -c $< -o $@

clean:
	rm -rf $(BUILD)
