#!/bin/sh
# usage: build_wl.sh <workload> [repo] [outdir] [extra flags] — compile one workload against a repo tree
set -e
V=$(cd "$(dirname "$0")/.." && pwd)
WL=$1; REPO=${2:-/repo}; OUT=${3:-$V/build/wl}; EXTRA=$4
mkdir -p $OUT
make -s -C $V setup
clang++ -std=c++17 -O1 -g -fno-omit-frame-pointer -fPIE -fsanitize=thread -mllvm -tsan-instrument-func-entry-exit=0 \
  -DGMLC_CONCURRENCY_VERIF -I$REPO -I$V/sim -Wall -Wno-unused-function $EXTRA -c $V/workloads/$WL.cpp -o $OUT/$WL.o
clang++ -pie -rdynamic $OUT/$WL.o $V/build/rt/*.o -o $OUT/$WL -ldl -lpthread
