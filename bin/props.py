"""Property -> jobs table for bin/check.  Each job is one workload binary with
parameters and a run budget per tier."""

RULE = ("one case = one simulated run: a program (per-thread op lists), per-run knobs and a "
        "schedule/fault decision sequence, all derived from hash(VERIF_SEED, workload, params, "
        "run index); non-trivial = the run contained at least one preemptive context switch (a "
        "switch away from a thread that could have continued); distinct = distinct 64-bit event "
        "hashes over (thread, operation kind, object ordinal, outcome) of every scheduling point, "
        "merged across workers and jobs with a sort/unique pass")


def J(name, wl, quick, thorough, **params):
    d = {"name": name, "wl": wl, "quick": quick, "thorough": thorough, "params": {}}
    for k, v in params.items():
        if k in ("limits", "time_ms", "fork_each"):
            d[k] = v
        else:
            d["params"][k] = v
    return d


def wrappers(mode, names, quick, thorough, **kw):
    return [J("%s.%s" % (n, mode), "wl_" + n, quick, thorough, mode=mode, **kw) for n in names]


PROPS = {
    "C01": {"jobs": wrappers("excl", ["guarded", "guarded_opt", "shared_guarded",
                                      "shared_guarded_opt", "ordered_guarded"], 100000, 2500000)},
    "C02": {"jobs": wrappers("rw", ["shared_guarded", "shared_guarded_opt", "ordered_guarded",
                                    "deferred_rw"], 100000, 2500000) +
            wrappers("rdv", ["shared_guarded", "shared_guarded_opt", "ordered_guarded",
                             "deferred_rw"], 20000, 300000)},
    "C08": {"jobs": wrappers("handle", ["guarded", "guarded_opt", "shared_guarded",
                                        "shared_guarded_opt", "ordered_guarded", "deferred_rw"],
                             80000, 2000000) +
            [J("guarded_opt.disabled", "wl_guarded_opt", 40000, 600000, mode="handle", disabled=1),
             J("shared_guarded_opt.disabled", "wl_shared_guarded_opt", 40000, 600000,
               mode="handle", disabled=1)]},
    "C15": {"jobs": wrappers("reg", ["atomic_guarded", "guarded", "guarded_opt", "ordered_guarded",
                                     "deferred_rw"], 100000, 2500000)},
    "C03": {"jobs": [J("lr.std", "wl_lr", 200000, 6000000, mode="std")]},
    "C04": {"jobs": [J("cow.std", "wl_cow", 150000, 4000000, mode="std")]},
    "C05": {"jobs": [J("rcu.std", "wl_rcu", 120000, 3000000, mode="std", elem=0),
                     J("rcu.std.string", "wl_rcu", 40000, 1000000, mode="std", elem=1)]},
    "C06": {"jobs": [J("deferred", "wl_deferred", 200000, 5000000)]},
    "C09": {"jobs": [J("barrier", "wl_barrier", 300000, 8000000)]},
    "C10": {"jobs": [J("latch", "wl_latch", 300000, 8000000)]},
    "C11": {"jobs": [J("trigger", "wl_trigger", 200000, 5000000)]},
    "C12": {"jobs": [J("rcu.std", "wl_rcu", 120000, 3000000, mode="std", elem=0),
                     J("rcu.std.blob", "wl_rcu", 40000, 1000000, mode="std", elem=2)]},
    "C13": {"jobs": [J("rcu.c13.tracked", "wl_rcu", 60000, 1500000, mode="c13", elem=0),
                     J("rcu.c13.string", "wl_rcu", 60000, 1500000, mode="c13", elem=1),
                     J("rcu.c13.blob", "wl_rcu", 40000, 1000000, mode="c13", elem=2)]},
    "C14": {"jobs": [J("lr.freeze", "wl_lr", 60000, 1500000, mode="freeze"),
                     J("lr.overlap", "wl_lr", 20000, 500000, mode="overlap"),
                     J("rcu.freeze", "wl_rcu", 60000, 1500000, mode="freeze", elem=0),
                     J("cow.freeze", "wl_cow", 60000, 1500000, mode="freeze")]},
    "C16": {"jobs": [J("dd.locked", "wl_dd", 150000, 4000000, single=0),
                     J("dd.single", "wl_dd", 60000, 1500000, single=1)]},
    "C17": {"jobs": [J("soh.std", "wl_soh", 150000, 4000000, mode="std")]},
    "C18": {"jobs": [J("dobj", "wl_dobj", 100000, 2500000)]},
    "C19": {"jobs": [J("trip.explicit", "wl_trip", 200000, 5000000, mode="explicit"),
                     J("trip.static", "wl_trip", 6000, 150000, mode="static", fork_each=1)]},
    "C20": {"jobs": [J("lr.throw", "wl_lr", 150000, 4000000, mode="throw")] +
            wrappers("throw", ["guarded", "guarded_opt", "ordered_guarded", "atomic_guarded",
                               "shared_guarded"], 50000, 1200000) +
            [J("deferred.throw", "wl_deferred", 80000, 2000000, mode="throw"),
             J("cow.throw", "wl_cow", 80000, 2000000, mode="throw"),
             J("soh.throw", "wl_soh", 80000, 2000000, mode="throw"),
             J("dd.throw", "wl_dd", 80000, 2000000, mode="throw")]},
}


def _t(level, note, technique):
    return {"level": level, "note": note, "technique": technique}


_NOTE = ("trusted base: the gsim runtime (scheduler, simulated pthread objects, memory-model executor) and the "
         "workload oracles; clang 14 -O1 x86-64 code generation; programs are small (<= 7 threads, <= 12 ops per "
         "thread); a clean batch is evidence, not proof")

TEXT = {
    "C01": _t("seeded search over schedules x programs x faults (time jumps, spurious try-lock failures) for all 5 wrappers x 4 mutex types; "
              "online oracles: access-window monitor on the wrapped object (any overlap with a write window), every granted access must "
              "observe the last completed write (no lost update), deadlock / no-progress detector, leaked-lock check after join",
              _NOTE, "seeded schedule search with access-window overlap and lost-update oracles"),
    "C02": _t("seeded search over reader/writer programs on shared_guarded, shared_guarded_opt, ordered_guarded, deferred_guarded x 4 mutex "
              "types under both rwlock preference policies; window monitor (W overlapping R or W), stable re-read under one shared access, "
              "and reader-sharing rendezvous programs in which no shared acquisition may wait or fail when only readers exist",
              _NOTE, "seeded schedule search with reader/writer window monitor and reader rendezvous"),
    "C03": _t("seeded search (random walk, PCT depth<=5, few-preemptions, stall) over writers and readers of lr_guarded<Cell>; oracles: window "
              "monitor per copy, torn/unstable reads, recency bounds lo<=v<=hi from invocation/response stamps, per-reader monotonicity, final "
              "value after two further modifies (both copies), termination; atomics executed under the memory-model executor with stale reads enabled",
              _NOTE, "seeded schedule search with per-copy window monitor and recency/monotonicity history oracle"),
    "C08": _t("seeded search over every try/timed acquisition form x handle life cycle (destroy, unlock, move-construct, move-assign) x mutex type x "
              "enable flag; oracle compares handle nullness with the calling thread's held-lock set as seen at the simulated pthread layer, forbids "
              "untimed waits inside try/timed forms, bounds every timed wait by the requested duration/time point, detects double release",
              _NOTE, "seeded schedule search with held-lock-set oracle at the pthread layer"),
    "C14": _t("fault = writer suspended at its k-th visible step (freeze) while readers must complete full read acquisitions; plus overlapping "
              "hand-over-hand readers that never leave the object unread until the writer has finished (bounded-step liveness under fair scheduling)",
              _NOTE, "writer-freeze fault injection at every visible step plus bounded-liveness search"),
    "C15": _t("seeded search over 1..3 threads issuing load/store/assign/convert/exchange/compare_exchange (unique values) on atomic_guarded, guarded, "
              "guarded_opt, ordered_guarded and load/modify_detach on deferred_guarded; recorded histories (simulator sequence stamps) are checked with a "
              "Wing-Gong linearizability search against a sequential register; torn loads reported online",
              _NOTE, "seeded schedule search with Wing-Gong linearizability check against a register model"),
}
