"""Property -> jobs table for bin/check.  Each job is one workload binary with
parameters and a run budget per tier."""

RULE = ("one case = one simulated run: a program (per-thread op lists), per-run knobs and a "
        "schedule/fault decision sequence, all derived from hash(VERIF_SEED, workload, params, "
        "run index); non-trivial = the run contained at least one preemptive context switch (a "
        "switch away from a thread that could have continued); distinct = distinct 64-bit event "
        "hashes over (thread, operation kind, object ordinal, outcome) of every scheduling point, "
        "merged across workers and jobs with a sort/unique pass")


def J(name, wl, quick, thorough, **params):
    d = {"name": name, "wl": wl, "quick": quick, "thorough": thorough, "params": {}}
    for k, v in params.items():
        if k in ("limits", "time_ms"):
            d[k] = v
        else:
            d["params"][k] = v
    return d


def wrappers(mode, names, quick, thorough, **kw):
    return [J("%s.%s" % (n, mode), "wl_" + n, quick, thorough, mode=mode, **kw) for n in names]


PROPS = {
    "C01": {"jobs": wrappers("excl", ["guarded", "guarded_opt", "shared_guarded",
                                      "shared_guarded_opt", "ordered_guarded"], 100000, 2500000)},
    "C02": {"jobs": wrappers("rw", ["shared_guarded", "shared_guarded_opt", "ordered_guarded",
                                    "deferred_rw"], 100000, 2500000) +
            wrappers("rdv", ["shared_guarded", "shared_guarded_opt", "ordered_guarded",
                             "deferred_rw"], 20000, 300000)},
    "C08": {"jobs": wrappers("handle", ["guarded", "guarded_opt", "shared_guarded",
                                        "shared_guarded_opt", "ordered_guarded", "deferred_rw"],
                             80000, 2000000) +
            [J("guarded_opt.disabled", "wl_guarded_opt", 40000, 600000, mode="handle", disabled=1),
             J("shared_guarded_opt.disabled", "wl_shared_guarded_opt", 40000, 600000,
               mode="handle", disabled=1)]},
    "C15": {"jobs": wrappers("reg", ["atomic_guarded", "guarded", "guarded_opt", "ordered_guarded",
                                     "deferred_rw"], 100000, 2500000)},
    "C03": {"jobs": [J("lr.std", "wl_lr", 200000, 6000000, mode="std")]},
    "C14": {"jobs": [J("lr.freeze", "wl_lr", 60000, 1500000, mode="freeze"),
                     J("lr.overlap", "wl_lr", 20000, 500000, mode="overlap")]},
}
