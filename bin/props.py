"""Property -> jobs table for bin/check.  Each job is one workload binary with
parameters and a run budget per tier."""

RULE = ("one case = one simulated run: a program (per-thread op lists), per-run knobs and a "
        "schedule/fault decision sequence, all derived from hash(VERIF_SEED, workload, params, "
        "run index); non-trivial = the run contained at least one preemptive context switch (a "
        "switch away from a thread that could have continued); distinct = distinct 64-bit event "
        "hashes over (thread, operation kind, object ordinal, outcome) of every scheduling point, "
        "merged across workers and jobs with a sort/unique pass")


QUICK_SCALE = 3
THOROUGH_SCALE = 3


def J(name, wl, quick, thorough, **params):
    d = {"name": name, "wl": wl, "quick": int(quick * QUICK_SCALE), "thorough": int(thorough * THOROUGH_SCALE), "params": {}}
    for k, v in params.items():
        if k in ("limits", "time_ms", "fork_each", "no_twins"):
            d[k] = v
        else:
            d["params"][k] = v
    return d


def with_hb(jobs, share=0.3):
    """Preemption happens at synchronisation and atomic operations only, so an access that escaped
    a critical section cannot be interleaved with — the happens-before detector finds it instead.
    Every main job therefore gets a smaller twin with the detector switched on."""
    out = list(jobs)
    for j in jobs:
        if j["params"].get("races") or j.get("fork_each") or j.get("no_twins"):
            continue
        t = {k: (dict(v) if isinstance(v, dict) else v) for k, v in j.items()}
        t["name"] = j["name"] + ".hb"
        t["params"]["races"] = 1
        t["quick"] = max(1000, int(j["quick"] * share))
        t["thorough"] = max(1000, int(j["thorough"] * share))
        out.append(t)
    return out


def with_gcc(jobs, share=0.25):
    """Compiler diversity: a twin of every main job built with g++'s -fsanitize=thread
    instrumentation (same ABI, same runtime).  Found necessary when a seeded change
    (`new T{x}` vs `new T(x)`) turned out to change behaviour under g++ only (CWG 2137)."""
    out = list(jobs)
    for j in jobs:
        if j["name"].endswith(".hb") or j.get("cxx") or j.get("no_twins"):
            continue  # (C07's own jobs do get a twin: the race detector then sees g++'s instrumentation)
        t = {k: (dict(v) if isinstance(v, dict) else v) for k, v in j.items()}
        t["name"] = j["name"] + ".gcc"
        t["cxx"] = "g++"
        t["quick"] = max(1000, int(j["quick"] * share))
        t["thorough"] = max(1000, int(j["thorough"] * share))
        out.append(t)
    return out


def wrappers(mode, names, quick, thorough, **kw):
    return [J("%s.%s" % (n, mode), "wl_" + n, quick, thorough, mode=mode, **kw) for n in names]


PROPS_RAW = {
    "C01": {"jobs": wrappers("excl", ["guarded", "guarded_opt", "shared_guarded",
                                      "shared_guarded_opt", "ordered_guarded"], 100000, 2500000) +
            # exclusion and "no leaked lock" also when user code throws under the lock
            wrappers("throw", ["guarded", "guarded_opt", "shared_guarded", "ordered_guarded"],
                     20000, 500000)},
    "C02": {"jobs": wrappers("rw", ["shared_guarded", "shared_guarded_opt", "ordered_guarded",
                                    "deferred_rw"], 100000, 2500000) +
            wrappers("rdv", ["shared_guarded", "shared_guarded_opt", "ordered_guarded",
                             "deferred_rw"], 20000, 300000)},
    "C07": {"jobs": [J("lr.races", "wl_lr", 100000, 3000000, mode="std", races=1),
                     J("cow.races", "wl_cow", 60000, 1500000, mode="std", races=1),
                     J("rcu.races", "wl_rcu", 80000, 2000000, mode="std", elem=0, races=1),
                     J("rcu.races.string", "wl_rcu", 30000, 800000, mode="std", elem=1, races=1),
                     J("deferred.races", "wl_deferred", 60000, 1500000, races=1),
                     J("trip.races", "wl_trip", 60000, 1500000, mode="explicit", races=1),
                     J("latch.races", "wl_latch", 60000, 1500000, races=1),
                     J("barrier.races", "wl_barrier", 40000, 1000000, races=1),
                     J("trigger.races", "wl_trigger", 40000, 1000000, races=1),
                     J("soh.races", "wl_soh", 40000, 1000000, mode="std", races=1),
                     J("dobj.races", "wl_dobj", 30000, 800000, races=1),
                     J("dd.races", "wl_dd", 40000, 1000000, single=0, races=1),
                     # error paths are part of "every access the library grants": the same
                     # programs with throwing user code (roll-back / repair code of lr_guarded,
                     # unwinding through handles and guards)
                     J("lr.throw.races", "wl_lr", 40000, 1000000, mode="throw", races=1),
                     J("cow.throw.races", "wl_cow", 30000, 800000, mode="throw", races=1),
                     J("deferred.throw.races", "wl_deferred", 30000, 800000, mode="throw", races=1),
                     J("dd.throw.races", "wl_dd", 20000, 500000, mode="throw", races=1),
                     J("soh.throw.races", "wl_soh", 20000, 500000, mode="throw", races=1)] +
            wrappers("rw", ["guarded", "guarded_opt", "shared_guarded", "shared_guarded_opt",
                            "ordered_guarded", "atomic_guarded"], 30000, 800000, races=1) +
            wrappers("throw", ["guarded", "shared_guarded", "ordered_guarded", "atomic_guarded"],
                     15000, 400000, races=1)},
    "C08": {"jobs": wrappers("handle", ["guarded", "guarded_opt", "shared_guarded",
                                        "shared_guarded_opt", "ordered_guarded", "deferred_rw"],
                             80000, 2000000) +
            [J("guarded_opt.disabled", "wl_guarded_opt", 40000, 600000, mode="handle", disabled=1),
             J("shared_guarded_opt.disabled", "wl_shared_guarded_opt", 40000, 600000,
               mode="handle", disabled=1)]},
    "C15": {"jobs": wrappers("reg", ["atomic_guarded", "guarded", "guarded_opt", "ordered_guarded",
                                     "deferred_rw"], 100000, 2500000) +
            # the other corner of the template-argument space: word-sized trivially copyable
            # element types (and std::string), race detector on
            [J("atomic_small", "wl_atomic_small", 100000, 2500000, races=1),
             # load / store / assignment lock unconditionally: also on an object built with
             # locking disabled (which only affects the handle-returning functions)
             J("guarded_opt.reg.disabled", "wl_guarded_opt", 40000, 1000000, mode="reg", disabled=1)] +
            # an operation that fails with an exception from the payload's copy/assignment must
            # leave the register holding a value somebody stored
            wrappers("throw", ["atomic_guarded", "guarded", "ordered_guarded"], 30000, 800000)},
    "C03": {"jobs": [J("lr.std", "wl_lr", 200000, 6000000, mode="std"),
                     # the statement quantifies over the memory-model behaviours of the atomics:
                     # an unordered reader/writer pair on the payload is a C03 violation too
                     J("lr.mm", "wl_lr", 100000, 3000000, mode="std", races=1),
                     # slow-node fault: a reader parked inside lock_shared while writers run
                     J("lr.rstall", "wl_lr", 100000, 3000000, mode="rstall"),
                     # "applied one at a time to the same sequence of states" also when a functor
                     # throws (roll-back and repair paths of modify())
                     J("lr.throw", "wl_lr", 60000, 1500000, mode="throw"),
                     J("lr.mv.throw", "wl_lr_mv", 30000, 800000),
                     # counter-width boundary: one thread holding 2 .. 131072 shared handles
                     # (long runs: few of them, own step limits, no twins)
                     J("lr.many", "wl_lr", 64, 600, mode="many", plain=0, limits=(1500000, 2500000),
                       no_twins=1)]},
    "C04": {"jobs": [J("cow.std", "wl_cow", 150000, 4000000, mode="std"),
                     # "frees the writer lock" also when copying the value throws inside lock()
                     J("cow.throw", "wl_cow", 40000, 1000000, mode="throw")]},
    "C05": {"jobs": [J("rcu.std", "wl_rcu", 120000, 3000000, mode="std", elem=0),
                     J("rcu.std.string", "wl_rcu", 40000, 1000000, mode="std", elem=1),
                     # handles and iterators taken while a writer is parked inside push/erase
                     J("rcu.window", "wl_rcu", 60000, 1500000, mode="window", elem=0),
                     # fault: failing allocations inside push / erase / handle registration
                     J("rcu.oom", "wl_rcu", 40000, 1000000, mode="std", elem=0, oom=1, alloc=0)]},
    "C06": {"jobs": [J("deferred", "wl_deferred", 200000, 5000000),
                     # two objects whose queued functions touch each other (nested drains)
                     J("deferred.two", "wl_deferred2", 60000, 1500000)]},
    "C09": {"jobs": [J("barrier", "wl_barrier", 300000, 8000000)]},
    "C10": {"jobs": [J("latch", "wl_latch", 300000, 8000000)]},
    "C11": {"jobs": [J("trigger", "wl_trigger", 200000, 5000000)]},
    "C12": {"jobs": [J("rcu.std", "wl_rcu", 120000, 3000000, mode="std", elem=0),
                     J("rcu.std.blob", "wl_rcu", 40000, 1000000, mode="std", elem=2),
                     # traversals made entirely while a writer is parked inside push/erase
                     J("rcu.freeze", "wl_rcu", 40000, 1000000, mode="freeze", elem=0),
                     J("rcu.window", "wl_rcu", 40000, 1000000, mode="window", elem=0),
                     # M = std::recursive_mutex (documented as supported) with an element
                     # constructor that pushes to the same list from inside emplace_*
                     J("rcu.reenter", "wl_rcu_reent", 30000, 800000),
                     # failing allocations: what completed normally must still add up
                     J("rcu.oom", "wl_rcu", 40000, 1000000, mode="std", elem=0, oom=1, alloc=0)]},
    "C13": {"jobs": [J("rcu.c13.tracked", "wl_rcu", 60000, 1500000, mode="c13", elem=0),
                     J("rcu.c13.string", "wl_rcu", 60000, 1500000, mode="c13", elem=1),
                     J("rcu.c13.blob", "wl_rcu", 40000, 1000000, mode="c13", elem=2),
                     # fault: the allocator handed to the list fails (std::bad_alloc) at arbitrary
                     # allocations — nodes, zombie records, handle registrations
                     J("rcu.c13.oom", "wl_rcu", 40000, 1000000, mode="c13", elem=0, oom=1, alloc=0),
                     J("rcu.c13.oom.string", "wl_rcu", 20000, 500000, mode="c13", elem=1, oom=1, alloc=0),
                     # recursive mutex + element constructors that push to the same list
                     J("rcu.reenter", "wl_rcu_reent", 30000, 800000)]},
    "C14": {"jobs": [J("lr.freeze", "wl_lr", 60000, 1500000, mode="freeze"),
                     J("lr.overlap", "wl_lr", 20000, 500000, mode="overlap"),
                     # writers must complete once handles are released: mixed readers (all
                     # acquisition forms) and writers; a writer left spinning is no_progress
                     J("lr.live", "wl_lr", 100000, 3000000, mode="std"),
                     J("rcu.freeze", "wl_rcu", 60000, 1500000, mode="freeze", elem=0),
                     J("cow.freeze", "wl_cow", 60000, 1500000, mode="freeze")]},
    "C16": {"jobs": [J("dd.locked", "wl_dd", 150000, 4000000, single=0),
                     J("dd.single", "wl_dd", 60000, 1500000, single=1),
                     J("dd.hb", "wl_dd", 40000, 1000000, single=0, races=1),
                     # an empty shared_ptr handed over is no object: no callback is due for it and
                     # the object accounting must not be disturbed by it (seed C16-j)
                     J("dd.empty", "wl_dd", 40000, 1000000, single=0, empty=1),
                     J("dd.single.empty", "wl_dd", 20000, 500000, single=1, empty=1)]},
    "C17": {"jobs": [J("soh.std", "wl_soh", 150000, 4000000, mode="std"),
                     # preemption happens at synchronisation points only; an access that escaped the
                     # holder's critical section is found by the happens-before detector instead
                     J("soh.hb", "wl_soh", 60000, 1500000, mode="std", races=1)]},
    "C18": {"jobs": [J("dobj", "wl_dobj", 100000, 2500000),
                     J("dobj.hb", "wl_dobj", 30000, 800000, races=1)]},
    "C19": {"jobs": [J("trip.explicit", "wl_trip", 200000, 5000000, mode="explicit"),
                     J("trip.static", "wl_trip", 6000, 150000, mode="static", fork_each=1),
                     # the declared line's trigger is created during static initialisation
                     J("trip.static.early", "wl_trip_early", 2000, 50000, mode="static", fork_each=1)]},
    "C20": {"jobs": [J("lr.throw", "wl_lr", 150000, 4000000, mode="throw"),
                     # payload with a cheap noexcept move and an expensive copy (std::vector)
                     J("lr.mv.throw", "wl_lr_mv", 60000, 1500000)] +
            wrappers("throw", ["guarded", "guarded_opt", "ordered_guarded", "atomic_guarded",
                               "shared_guarded"], 50000, 1200000) +
            [J("deferred.throw", "wl_deferred", 80000, 2000000, mode="throw"),
             J("cow.throw", "wl_cow", 80000, 2000000, mode="throw"),
             J("soh.throw", "wl_soh", 80000, 2000000, mode="throw"),
             J("dd.throw", "wl_dd", 80000, 2000000, mode="throw"),
             J("dd.single.throw", "wl_dd", 30000, 800000, mode="throw", single=1)]},
}

# properties whose main jobs get a happens-before twin (C03, C07, C16-C19 have theirs spelled out)
PROPS = dict(PROPS_RAW)
for _p in ("C01", "C02", "C04", "C05", "C06", "C09", "C10", "C11", "C12", "C13", "C15", "C20"):
    PROPS[_p] = dict(PROPS_RAW[_p], jobs=with_hb(PROPS_RAW[_p]["jobs"]))
for _p in list(PROPS):
    PROPS[_p] = dict(PROPS[_p], jobs=with_gcc(PROPS[_p]["jobs"]))


def _t(level, note, technique):
    return {"level": level, "note": note, "technique": technique}


_NOTE = ("trusted base: the gsim runtime (scheduler, simulated pthread objects, memory-model executor) and the "
         "workload oracles; clang 14 and g++ 12 -O1 x86-64 code generation (every main job runs under both); programs are small (<= 7 threads, <= 12 ops per "
         "thread); a clean batch is evidence, not proof")

TEXT = {
    "C01": _t("seeded search over schedules x programs x faults (time jumps, spurious try-lock failures) for all 5 wrappers x 4 mutex types; "
              "online oracles: access-window monitor on the wrapped object (any overlap with a write window), every granted access must "
              "observe the last completed write (no lost update), deadlock / no-progress detector, leaked-lock check after join",
              _NOTE, "seeded schedule search with access-window overlap and lost-update oracles"),
    "C02": _t("seeded search over reader/writer programs on shared_guarded, shared_guarded_opt, ordered_guarded, deferred_guarded x 4 mutex "
              "types under both rwlock preference policies; window monitor (W overlapping R or W), stable re-read under one shared access, "
              "and reader-sharing rendezvous programs in which no shared acquisition may wait or fail when only readers exist",
              _NOTE, "seeded schedule search with reader/writer window monitor and reader rendezvous"),
    "C03": _t("seeded search (random walk, PCT depth<=5, few-preemptions, stall) over writers and readers of lr_guarded<Cell>; oracles: window "
              "monitor per copy, torn/unstable reads, recency bounds lo<=v<=hi from invocation/response stamps, per-reader monotonicity, final "
              "value after two further modifies (both copies), termination; atomics executed under the memory-model executor with stale reads enabled",
              _NOTE, "seeded schedule search with per-copy window monitor and recency/monotonicity history oracle"),
    "C08": _t("seeded search over every try/timed acquisition form x handle life cycle (destroy, unlock, move-construct, move-assign) x mutex type x "
              "enable flag; oracle compares handle nullness with the calling thread's held-lock set as seen at the simulated pthread layer, forbids "
              "untimed waits inside try/timed forms, bounds every timed wait by the requested duration/time point, detects double release",
              _NOTE, "seeded schedule search with held-lock-set oracle at the pthread layer"),
    "C04": _t("seeded search over writers (commit, cancel, handle move-construct) and readers holding snapshots across later commits of "
              "cow_guarded<CV, mutex|timed_mutex>; oracles: liveness registry + quarantine on snapshots, re-read equality (immutability), every write "
              "handle starts from exactly the number of commits released so far (serialisation, no lost update), recency bounds for snapshots, "
              "cancel leaves the handle null and the writer lock free, every value object destroyed exactly once",
              _NOTE, "seeded schedule search with snapshot-immutability, commit-count and liveness oracles"),
    "C05": _t("seeded search over traversing readers (pausing on elements), pushing/erasing writers and short-lived handles on "
              "rcu_guarded<rcu_list<T>> with a tracking allocator and with std::allocator; every instrumented access, atomic operation and mem* range "
              "is checked against the per-run quarantine (freed blocks are poisoned and never reused), dereferences are checked against a "
              "liveness registry; stale reads enabled for the relaxed loads",
              _NOTE, "seeded schedule search with quarantining heap and liveness registry (use-after-free oracle)"),
    "C06": _t("seeded search over submitters (direct and queued path, forced by reader contention and spurious try-lock failures), readers and "
              "drainers on deferred_guarded x 4 mutex types; online: exactly-once execution, exclusivity windows, real-time/program order of "
              "execution; at quiescence one lock_shared must have applied every accepted function and every modify_async future is ready with its value/exception",
              _NOTE, "seeded schedule search with exactly-once / ordering / quiescence history oracle"),
    "C07": _t("union of all workloads run with the in-simulator happens-before race detector (vector clocks over mutex/rwlock/once/guard/spawn/join and "
              "the atomics model) and the memory-model executor choosing stale reads for non-seq_cst loads; every pair of conflicting plain accesses "
              "(payload, library internals, published data in latch/barrier/trigger/tripwire workloads) must be ordered",
              _NOTE + "; accesses inside libstdc++.so are invisible to the detector", "seeded schedule and reads-from search with vector-clock race detection"),
    "C09": _t("seeded search over 2..5 participants x 1..4 generations with arbitrary drop-outs, spurious wake-ups, lapping; oracle: at the return of an "
              "n-th arrival the number of invoked n-th arrivals equals the statically required number; deadlock detector for lost wake-ups; published "
              "per-generation slots under the race detector in C07; slow participants (simulated sleeps up to 2 h) and clock jumps at timed waits",
              _NOTE, "seeded schedule search with arrival-count oracle and deadlock detection"),
    "C10": _t("seeded search over arrivers, waiters, arrive_and_wait participants, late waiters, over-arrival, spurious wake-ups; oracle: wait returns only "
              "after >= count arrivals were invoked, all threads finish (lost wake-up = deadlock), lone arrivals return; slow arrivers (simulated "
              "sleeps) and clock jumps at timed waits",
              _NOTE, "seeded schedule search with arrival-count oracle and deadlock detection"),
    "C11": _t("seeded search over activator / triggerers / waiters (wait, wait_for, waitActivation, wait_forActivation) / resetters over one or two "
              "activation epochs with spurious wake-ups, time jumps (time-outs at arbitrary points) and stale reads; post-hoc history oracle over "
              "invocation/response stamps that constrains only what the statement fixes",
              _NOTE, "seeded schedule search with event-history oracle and deadlock detection"),
    "C12": _t("seeded search over traversals and push_front/push_back/emplace/erase; per traversal: only pushed values, no duplicates, every stable "
              "element visited; black-box serialisation search: some real-time-respecting order of the pushes must explain the final list order and "
              "make every traversal a subsequence; final membership = pushed minus erased; pre- and post-increment, operator-> and operator* "
              "traversals; M = std::recursive_mutex with element constructors that push to the list they are emplaced into (job rcu.reenter)",
              _NOTE, "seeded schedule search with serialisation search against a sequential reference list"),
    "C13": _t("seeded search over handle acquisition/release, pushes, erases (also double erase), throwing emplace, for Tracked / std::string / trivially "
              "destructible element types with a monitoring allocator (construct/destroy/allocate/deallocate state machine per pointer) and with "
              "std::allocator; teardown accounting: everything allocated is destroyed and deallocated exactly once, nothing unconstructed is destroyed; "
              "the list destructor (not a later handle) must reclaim in half of the runs",
              _NOTE, "seeded schedule search with allocator state-machine monitor and teardown accounting"),
    "C16": _t("seeded search over adders, external owners, destroyObjects()/destroyObjects(delay)/size callers, lock time-outs (time jumps), with callbacks "
              "and element destructors that re-enter size/add/destroyObjects; oracles: destroyed exactly once and never while externally owned, callback "
              "exactly once before reaped objects, self-deadlock detection on the internal timed_mutex, conservation at quiescence, destruction with the "
              "container; the single-thread class runs the same generator sequentially",
              _NOTE, "seeded schedule search with ownership registry, re-entrancy (self-deadlock) and conservation oracles"),
    "C17": _t("seeded search over 1..3 clients issuing add/addType/copy/remove(name|predicate)/find*/checkObjectType/getObjects/empty on short and "
              "heap-allocated names; Wing-Gong linearizability against a reference map whose predicate operations are nondeterministic; memory safety "
              "through the quarantine (instrumented accesses and interposed memcmp/memcpy), liveness registry for returned objects",
              _NOTE, "seeded schedule search with Wing-Gong linearizability check and quarantining heap"),
    "C18": _t("seeded search over getFuture / setDelayedValue (copy, move; int and string keys; unknown and completed keys) / fulfillAllPromises / "
              "finishedWithValue / queries / destruction with consumers blocked in future::get() inside the simulation (futex shim); any std::future_error "
              "is a violation; Wing-Gong linearizability against a per-key life-cycle model fixes the admissible value of every future; an endless "
              "loop without synchronisation inside the library (e.g. a corrupted map walk under the lock) is reported as class endless_loop",
              _NOTE, "seeded schedule search with life-cycle linearizability model and deadlock detection"),
    "C19": _t("seeded search over trigger destruction variants (direct, move-constructed, move-assigned, chains) and polling detectors on explicit lines, "
              "and on the declared/indexed static lines with every run in a fresh forked child; oracles: false* true* per detector, true only after the "
              "duty-holder's destruction began, other lines untouched, out-of-range index throws, and the datum written before destruction is read "
              "race-free (happens-before detector with stale reads enabled); creator handing all its references over before the threads start; one "
              "detector object polled by several threads",
              _NOTE, "seeded schedule and reads-from search with trip-order oracle and race detection"),
    "C20": _t("fault = k-th invocation of user code throws (functors, payload copy-ctor/assignment, predicates, callbacks, cow copy) combined with schedule "
              "search; oracles: exception reaches the caller or the future, held-lock set restored, wrappers stay usable (deadlock detector), lr_guarded "
              "all-or-nothing (throw at first application leaves the value, at second completes it; copies agree afterwards), payload never torn",
              _NOTE, "throw-fault injection at user-code call sites combined with seeded schedule search"),
    "C14": _t("fault = writer suspended at its k-th visible step (freeze) while readers must complete full read acquisitions; plus overlapping "
              "hand-over-hand readers that never leave the object unread until the writer has finished (bounded-step liveness under fair scheduling)",
              _NOTE, "writer-freeze fault injection at every visible step plus bounded-liveness search"),
    "C15": _t("seeded search over 1..3 threads issuing load/store/assign/convert/exchange/compare_exchange (unique values) on atomic_guarded, guarded, "
              "guarded_opt, ordered_guarded and load/modify_detach on deferred_guarded; recorded histories (simulator sequence stamps) are checked with a "
              "Wing-Gong linearizability search against a sequential register; torn loads reported online; job atomic_small: atomic_guarded<T> for "
              "word-sized trivially copyable T (long, 2x32-bit pair, byte) and std::string with the race detector on; quiescent-load rule for "
              "deferred_guarded (a load on an idle object must apply every modification whose submission had returned)",
              _NOTE, "seeded schedule search with Wing-Gong linearizability check against a register model"),
}
