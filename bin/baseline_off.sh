#!/bin/sh
# Build /repo's own test suite (no verification guard involved: there are no
# source hooks) in a scratch directory and run it the way BASELINE.json does.
set -e
B=${GSIM_BASELINE_DIR:-/var/tmp/gsim-baseline}
rm -rf "$B"
cmake -G Ninja -S /repo -B "$B" -DGMLC_CONCURRENCY_TEST=ON -DGMLC_CONCURRENCY_ENABLE_SUBMODULE_UPDATE=OFF -DCMAKE_BUILD_TYPE=RelWithDebInfo >/dev/null
cmake --build "$B" >/dev/null
ctest --test-dir "$B" -j8 --timeout 900
rc=$?
rm -rf "$B"
exit $rc
