#!/usr/bin/env python3
"""fill the catch-matrix section of DESIGN.md from selftest JSON results"""
import glob, json, os, re, sys
VERIF = os.path.dirname(os.path.dirname(os.path.abspath(__file__)))
def load(n):
    p = os.path.join(VERIF, "selftest", n)
    return json.load(open(p)) if os.path.exists(p) else []
mut, ben = load("results-mutants.json"), load("results-benign.json")
out = []
def table(title, recs, verdict_ok, verdict_bad):
    out.append("**%s** (%d/%d %s)\n" % (title, sum(r["ok"] for r in recs), len(recs), verdict_ok))
    out.append("| change | check | result | violation classes | first failing run (per job) | s |")
    out.append("|---|---|---|---|---|---|")
    for r in recs:
        ff = ", ".join("%s: %d" % kv for kv in sorted(r["first_failure_runs"].items()))
        out.append("| %s | %s | %s | %s | %s | %.0f |" % (r["name"], r["property"], verdict_ok if r["ok"] else verdict_bad,
                                                      ", ".join(r["classes"]), ff, r["seconds"]))
    out.append("")
seeded = [r for r in mut if r["kind"] == "seeded"]
mutants = [r for r in mut if r["kind"] == "mutant"]
if seeded:
    out.append("Seeded changes come from independent sub-agents that saw only the property text and a scratch worktree; each was re-confirmed with `bin/verify_seed` (repository tests pass with the change; the agent's demo fails with it and passes without it) and is stored under `seeded/<id>/`.\n")
    table("Independently seeded changes", seeded, "caught", "MISSED")
if mutants:
    table("Selftest mutants (my own sensitivity targets)", mutants, "caught", "MISSED")
if ben:
    table("Semantics-preserving variants (must not alarm)", ben, "passes", "FALSE ALARM")
p = os.path.join(VERIF, "DESIGN.md")
s = open(p).read()
s = re.sub(r"<!-- BEGIN:catch-matrix -->.*<!-- END:catch-matrix -->", "<!-- BEGIN:catch-matrix -->\n" + "\n".join(out) + "\n<!-- END:catch-matrix -->", s, flags=re.S)
open(p, "w").write(s)
print("tables: %d seeded, %d mutants, %d benign" % (len(seeded), len(mutants), len(ben)))
