#!/usr/bin/env python3
"""regenerate /verif/MANIFEST.json from bin/props.py (single source of truth for jobs)"""
import json, os, sys
VERIF = os.path.dirname(os.path.dirname(os.path.abspath(__file__)))
sys.path.insert(0, os.path.join(VERIF, "bin"))
from props import PROPS, TEXT
ALL = ["C%02d" % i for i in range(1, 21)]
checks = []
for p in ALL:
    if p not in PROPS:
        continue
    t = TEXT[p]
    checks.append({
        "property_id": p,
        "quick_cmd": "/verif/bin/check %s --tier quick" % p,
        "thorough_cmd": "/verif/bin/check %s --tier thorough" % p,
        "evidence_file": "/verif/evidence/%s.json" % p,
        "replay_cmd_template": "/verif/bin/check %s --replay {path}" % p,
        "engine": "gsim",
        "level_claimed": {"category": "exploration", "text": t["level"], "design_ref": "DESIGN.md §4 " + p},
        "level_note": t["note"],
        "technique": "deterministic simulation with fault injection: " + t["technique"],
    })
na = [{"property_id": p, "reason": "check not built yet (work in progress in this round); the property is applicable and is planned per DESIGN.md §4"} for p in ALL if p not in PROPS]
m = {
    "version": 1,
    "setup_cmd": "make -C /verif setup",
    "hooks": {
        "guard": "GMLC_CONCURRENCY_VERIF",
        "enable": "no source hooks are needed: workload translation units include the headers of /repo's current working tree, are compiled with clang -fsanitize=thread for instrumentation only and linked against /verif/sim (which implements the __tsan_* ABI and interposes pthread/futex/clock/new/delete) instead of the TSan runtime; -DGMLC_CONCURRENCY_VERIF is passed on every harness compile line and referenced by no repo source",
        "baseline_off_cmd": "/verif/bin/baseline_off.sh",
        "source_commits": [],
        "add_only": True,
    },
    "engines": [{"name": "gsim", "path": "/verif/sim", "serves_properties": [c["property_id"] for c in checks],
                 "kind_free_text": "deterministic simulator: real threads with one baton, seeded scheduler (random walk / PCT / few-preemptions / stall / freeze), simulated mutex/rwlock/condvar/once/futex/clock, operational C++11 atomics model, happens-before race detector, quarantining heap, fault injection (spurious wake-ups, time jumps, spurious try-lock failures, stale reads, throwing user code), replay files with delta-debugging minimisation"}],
    "checks": checks,
    "not_applicable": na,
    "notes": "bin/check <id> rebuilds the workloads it needs against /repo's working tree (content-hashed cache under /verif/build), runs 16 pinned worker processes over disjoint run indices derived from VERIF_SEED, minimises and gates every failure (two fresh-process replays with identical event hash) before printing VIOLATION, and writes evidence/<id>.json. known_findings.json lists fixed/open findings.",
}
json.dump(m, open(os.path.join(VERIF, "MANIFEST.json"), "w"), indent=1)
print("checks:", [c["property_id"] for c in checks], "n/a:", [n["property_id"] for n in na])
